"""Shared check driver: sharding, hypothesis configuration, evidence, replay files, known findings.

A property module (props/Cxx.py) defines:
  PROPERTY = 'C01'; LEVEL = 'exploration'; RULE = '...'; ASSUMPTIONS = [...]
  def shard_main(ctx): runs this shard's share of the work using ctx (ShardCtx) -- typically ctx.run_hypothesis(...)
  def replay(ctx, case) -> list of failure dicts (empty = passes)
  optional: def budget(tier) -> dict of parameters
"""
import os, sys, json, time, hashlib, base64, pickle, subprocess, traceback, random, collections

VERIF = os.path.dirname(os.path.dirname(os.path.abspath(__file__)))
WORK = os.path.join(VERIF, ".work")
sys.path.insert(0, os.path.join(VERIF, "pylib"))

from worker import Worker, WorkerCrash, WorkerHang


def h64(*parts):
    m = hashlib.sha1()
    for p in parts:
        m.update(p.encode("utf-8") if isinstance(p, str) else p)
        m.update(b"\0")
    return m.hexdigest()[:16]


def derive_seed(seed, prop, shard):
    return int(hashlib.sha1(("%s/%s/%s" % (seed, prop, shard)).encode()).hexdigest()[:8], 16)


class KnownFindings:
    def __init__(self):
        p = os.path.join(VERIF, "known_findings.json")
        self.entries = json.load(open(p))["findings"] if os.path.exists(p) else []

    def known(self, prop):
        return [e for e in self.entries if e.get("property") == prop and e.get("status") == "known"]

    def by_id(self, fid):
        for e in self.entries:
            if e["id"] == fid:
                return e
        return None

    def quirk_ids(self, prop):
        """{quirk name: finding id} for recorded (status known) quirk signatures of a property"""
        r = {}
        for e in self.known(prop):
            sig = e.get("signature", {})
            if sig.get("kind") == "quirk":
                r[sig["quirk"]] = e["id"]
        return r


class Failure(Exception):
    def __init__(self, kind, detail):
        Exception.__init__(self, kind)
        self.kind = kind
        self.detail = detail


class ShardCtx:
    def __init__(self, prop, tier, seed, shard, nshards, params):
        self.prop, self.tier, self.seed, self.shard, self.nshards = prop, tier, seed, shard, nshards
        self.params = params
        self.evaluations = 0
        self.nontrivial = set()
        self.classes = collections.Counter()
        self.samples = []
        self.failures = []          # [{kind, case, detail}]
        self.known_hits = collections.Counter()
        self.known_examples = {}
        self.notes = collections.Counter()
        self.kf = KnownFindings()
        self._workers = {}
        self.last_failure = None
        self.max_samples = 3
        self.exhaustive = None

    def worker(self, variant="san", name="worker", **kw):
        key = (variant, name)
        if key not in self._workers:
            self._workers[key] = Worker(variant, name, **kw)
        return self._workers[key]

    def close(self):
        for w in self._workers.values():
            w.stop()

    # --- bookkeeping -------------------------------------------------------------------------------
    def count(self, case_hash, nontrivial, labels=(), sample=None):
        self.evaluations += 1
        for l in labels:
            self.classes[l] += 1
        if nontrivial:
            if case_hash not in self.nontrivial and sample is not None and len(self.samples) < self.max_samples:
                self.samples.append(sample() if callable(sample) else sample)
            self.nontrivial.add(case_hash)

    def replay_witnesses(self, mod):
        """known findings identified by a specific input (signature.kind == 'input'): the committed witness is
        replayed; while it still fails the finding is reported as KNOWN-FINDING, never as a violation"""
        for f in self.kf.known(self.prop):
            sig = f.get("signature", {})
            if sig.get("kind") != "input":
                continue
            path = os.path.join(VERIF, f["witness"])
            case = json.load(open(path))["case"]
            try:
                fails = mod.replay(self, case)
            except Exception as e:
                fails = [{"kind": "exception", "detail": str(e)}]
            if fails:
                self.known_finding(f["id"], {"witness": f["witness"]})
            else:
                self.notes["known-finding-no-longer-reproduces:" + f["id"]] += 1

    def replay_corpus(self, mod, sub="fixed"):
        """regression corpus (fixed defects, interesting cases): every file must pass"""
        d = os.path.join(VERIF, "corpus", self.prop, sub)
        if not os.path.isdir(d):
            return
        for fn in sorted(os.listdir(d)):
            if not fn.endswith(".json"):
                continue
            data = json.load(open(os.path.join(d, fn)))
            fails = mod.replay(self, data["case"])
            self.notes["corpus_replayed"] += 1
            for f in fails:
                self.failures.append({"kind": "regression:" + f["kind"], "detail": f["detail"], "case": data["case"]})

    def known_finding(self, fid, example=None):
        self.known_hits[fid] += 1
        if fid not in self.known_examples and example is not None:
            self.known_examples[fid] = example

    # --- hypothesis driver -------------------------------------------------------------------------
    def run_hypothesis(self, strategy_args, body, max_examples, case_repr, name="prop"):
        """body(*args) raises Failure for a violation. Shrinks, then confirms 3x, then records.
        Continues with a fresh derived seed after a confirmed failure is recorded? No: one failure per shard."""
        from hypothesis import given, settings, seed as hseed, HealthCheck, Phase
        from hypothesis import strategies as st
        sd = derive_seed(self.seed, self.prop + name, self.shard)
        ctx = self
        state = {"last": None}

        @settings(max_examples=max_examples, database=None, deadline=None, derandomize=False,
                  suppress_health_check=list(HealthCheck), report_multiple_bugs=False,
                  phases=[Phase.generate, Phase.shrink])
        @hseed(sd)
        @given(st.tuples(*strategy_args))
        def prop(args):
            try:
                body(*args)
            except Failure as f:
                state["last"] = (args, f)
                raise

        try:
            prop()
        except Failure:
            args, f = state["last"]
            # confirm 3x with fresh workers
            confirmed = 0
            for i in range(3):
                self.close()
                self._workers = {}
                try:
                    body(*args)
                except Failure:
                    confirmed += 1
            if confirmed == 3:
                self.failures.append({"kind": f.kind, "detail": f.detail, "case": case_repr(*args)})
            else:
                self.notes["flaky_failure_not_confirmed"] += 1
                self.failures_flaky = getattr(self, "failures_flaky", [])
                self.failures_flaky.append({"kind": f.kind, "detail": f.detail, "case": case_repr(*args), "confirmed": confirmed})
        except BaseException as e:
            if type(e).__name__ in ("FlakyFailure", "Flaky", "FlakyStrategyDefinition"):
                self.notes["hypothesis_flaky"] += 1
                self.failures_flaky = getattr(self, "failures_flaky", [])
                last = state.get("last")
                self.failures_flaky.append({"kind": "flaky", "detail": {"msg": str(e)[:600],
                                                                      "last_failure_kind": last[1].kind if last else None,
                                                                      "last_failure_detail": json.loads(json.dumps(last[1].detail, default=str))
                                                                      if last else None},
                                            "case": (case_repr(*last[0]) if last else None)})
            else:
                raise

    def result(self):
        return {
            "shard": self.shard, "evaluations": self.evaluations, "nontrivial": sorted(self.nontrivial),
            "classes": dict(self.classes), "samples": self.samples, "failures": self.failures,
            "flaky": getattr(self, "failures_flaky", []),
            "known_hits": dict(self.known_hits), "known_examples": self.known_examples, "notes": dict(self.notes),
            "exhaustive": self.exhaustive,
        }


def pack(obj):
    return base64.b64encode(pickle.dumps(obj)).decode("ascii")


def unpack(s):
    return pickle.loads(base64.b64decode(s))


# ---------------------------------------------------------------------------------------------------

def shard_entry(mod):
    """called in the shard subprocess: python3-vt -m props.Cxx --shard i n --tier t --seed s --out f"""
    a = sys.argv
    shard, nshards = int(a[a.index("--shard") + 1]), int(a[a.index("--shard") + 2])
    tier = a[a.index("--tier") + 1]
    seed = int(a[a.index("--seed") + 1])
    out = a[a.index("--out") + 1]
    params = mod.budget(tier)
    ctx = ShardCtx(mod.PROPERTY, tier, seed, shard, nshards, params)
    err = None
    try:
        mod.shard_main(ctx)
    except Exception:
        err = traceback.format_exc()
    finally:
        ctx.close()
    r = ctx.result()
    r["error"] = err
    with open(out + ".tmp", "w") as f:
        json.dump(r, f)
    os.replace(out + ".tmp", out)


def write_replay(prop, failure):
    d = os.path.join(VERIF, "replays", prop)
    os.makedirs(d, exist_ok=True)
    body = json.dumps({"property": prop, "kind": failure["kind"], "case": failure["case"], "detail": failure["detail"]},
                      indent=1, sort_keys=True, default=str)
    path = os.path.join(d, h64(body) + ".json")
    with open(path, "w") as f:
        f.write(body)
    return path


def run_check(mod, tier, seed, nshards=None, builds=(("san", ["worker"]),)):
    """driver side: build, spawn shards, aggregate, write evidence, print verdict lines, return exit code"""
    t0 = time.time()
    prop = mod.PROPERTY
    for variant, harnesses in builds:
        cmd = [sys.executable, os.path.join(VERIF, "tools", "build.py"), variant]
        if harnesses:
            cmd += ["--harness"] + list(harnesses)
        r = subprocess.run(cmd, stdout=subprocess.PIPE, stderr=subprocess.PIPE, text=True)
        if r.returncode != 0:
            print("BUILD-FAILED %s\n%s" % (variant, r.stderr[-4000:]))
            return 2
    nshards = nshards or int(os.environ.get("VERIF_JOBS", "16"))
    params = mod.budget(tier)
    nshards = params.get("shards", nshards)
    outdir = os.path.join(WORK, "shards", prop)
    os.makedirs(outdir, exist_ok=True)
    os.makedirs(os.path.join(WORK, "scratch"), exist_ok=True)
    procs = []
    modname = mod.__name__ if mod.__name__ != "__main__" else "props." + prop
    for i in range(nshards):
        out = os.path.join(outdir, "shard%d.json" % i)
        if os.path.exists(out):
            os.remove(out)
        env = dict(os.environ, PYTHONPATH=os.path.join(VERIF, "pylib") + ":" + VERIF, PYTHONHASHSEED="0")
        p = subprocess.Popen([sys.executable, "-m", modname, "--shard", str(i), str(nshards), "--tier", tier,
                              "--seed", str(seed), "--out", out], cwd=VERIF, env=env,
                             stdout=subprocess.PIPE, stderr=subprocess.STDOUT)
        procs.append((p, out))
    results = []
    broken = []
    for p, out in procs:
        so, _ = p.communicate()
        if os.path.exists(out):
            r = json.load(open(out))
            if r.get("error"):
                broken.append(r["error"])
            results.append(r)
        else:
            broken.append("shard produced no result: rc=%s %s" % (p.returncode, so.decode("latin-1")[-3000:]))
    # aggregate
    evaluations = sum(r["evaluations"] for r in results)
    nontrivial = set()
    classes = collections.Counter()
    known_hits = collections.Counter()
    known_examples = {}
    notes = collections.Counter()
    samples, failures, flaky = [], [], []
    for r in results:
        nontrivial.update(r["nontrivial"])
        classes.update(r["classes"])
        known_hits.update(r["known_hits"])
        notes.update(r["notes"])
        for k, v in r["known_examples"].items():
            known_examples.setdefault(k, v)
        if len(samples) < 4:
            samples.extend(r["samples"][:2])
        failures.extend(r["failures"])
        flaky.extend(r.get("flaky", []))
    kf = KnownFindings()
    lines = []
    for fid, n in sorted(known_hits.items()):
        e = kf.by_id(fid) or {}
        lines.append("KNOWN-FINDING: property=%s %s %s (hit %d times)" % (prop, fid, e.get("what_fails", ""), n))
    # distinct failures by (kind, signature)
    seen = set()
    vio = []
    for f in failures:
        sig = (f["kind"], json.dumps(f["detail"].get("signature", f["detail"]), sort_keys=True, default=str)[:300])
        if sig in seen:
            continue
        seen.add(sig)
        path = write_replay(prop, f)
        vio.append(path)
        lines.append("VIOLATION property=%s replay=%s" % (prop, path))
    minimum = params.get("min_nontrivial", 2)
    exhaustive = all(r.get("exhaustive") for r in results) if results and any(r.get("exhaustive") is not None for r in results) else None
    ev = {
        "property_id": prop, "tier": tier, "seed": seed, "level": mod.LEVEL,
        "coverage": {
            "evaluations": evaluations, "distinct_nontrivial": len(nontrivial), "rule": mod.RULE,
            "samples": samples[:4] if samples else [],
            "classes": dict(classes), "known_findings_hit": dict(known_hits), "notes": dict(notes),
            "shards": len(results), "params": {k: v for k, v in params.items() if isinstance(v, (int, float, str, bool))},
            "unconfirmed_flaky_failures": len(flaky),
        },
        "assumptions": getattr(mod, "ASSUMPTIONS", []),
        "wall_s": round(time.time() - t0, 2),
        "violations": len(vio),
    }
    if exhaustive is not None:
        ev["coverage"]["exhaustive"] = bool(exhaustive)
    extra = getattr(mod, "extra_coverage", None)
    if extra:
        ev["coverage"].update(extra(results))
    os.makedirs(os.path.join(VERIF, "evidence"), exist_ok=True)
    with open(os.path.join(VERIF, "evidence", prop + ".json"), "w") as f:
        json.dump(ev, f, indent=1, sort_keys=True, default=str)
    for l in lines:
        print(l)
    print("%s tier=%s seed=%s evaluations=%d distinct_nontrivial=%d violations=%d known=%s wall=%.1fs" % (
        prop, tier, seed, evaluations, len(nontrivial), len(vio), dict(known_hits), time.time() - t0))
    if flaky:
        try:
            json.dump(flaky, open(os.path.join(WORK, "flaky-%s.json" % prop), "w"), indent=1, default=str)
        except Exception:
            pass
        print("note: %d unconfirmed (flaky) failures were not reported; see evidence notes" % len(flaky))
        for f in flaky[:3]:
            print("  flaky:", json.dumps(f, default=str)[:600])
    if broken:
        print("CHECK-BROKEN %s: %s" % (prop, broken[0][-3000:]))
        return 2
    if vio:
        return 1
    if len(nontrivial) < minimum:
        print("CHECK-BROKEN %s: only %d non-trivial cases (< %d)" % (prop, len(nontrivial), minimum))
        return 2
    return 0


def run_replay(mod, path):
    data = json.load(open(path))
    ctx = ShardCtx(mod.PROPERTY, "replay", 0, 0, 1, mod.budget("quick"))
    try:
        fails = mod.replay(ctx, data["case"])
    finally:
        ctx.close()
    if fails:
        print("VIOLATION property=%s replay=%s" % (mod.PROPERTY, path))
        for f in fails:
            print(json.dumps(f, indent=1, default=str)[:4000])
        return 1
    print("replay passes: %s" % path)
    return 0
