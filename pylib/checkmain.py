import sys, os, importlib
VERIF = os.path.dirname(os.path.dirname(os.path.abspath(__file__)))
sys.path.insert(0, os.path.join(VERIF, "pylib"))
sys.path.insert(0, os.path.join(VERIF, "props"))
sys.path.insert(0, VERIF)
os.chdir(VERIF)
import harness


def main():
    a = sys.argv[1:]
    if not a:
        print("usage: check <Cxx> [--tier quick|thorough] [--replay file]")
        return 2
    prop = a[0]
    tier = os.environ.get("VERIF_TIER", "quick")
    if "--tier" in a:
        tier = a[a.index("--tier") + 1]
    seed = int(os.environ.get("VERIF_SEED", "1") or 1)
    mod = importlib.import_module("props." + prop)
    if "--replay" in a:
        path = a[a.index("--replay") + 1]
        builds = getattr(mod, "BUILDS", (("san", ["worker"]),))
        import subprocess
        for variant, hs in builds:
            subprocess.run([sys.executable, os.path.join(VERIF, "tools", "build.py"), variant] + (["--harness"] + list(hs) if hs else []),
                           stdout=subprocess.DEVNULL, stderr=subprocess.DEVNULL)
        return harness.run_replay(mod, path)
    if hasattr(mod, "main"):
        return mod.main(tier, seed)
    return harness.run_check(mod, tier, seed, builds=getattr(mod, "BUILDS", (("san", ["worker"]),)))


if __name__ == "__main__":
    sys.exit(main())
