"""Reference model: a direct, unoptimised transcription of W3C SCXML 1.0 Appendix D over chart.py's AST.

Written from the Recommendation (see DESIGN.md Appendix A), not from the code under test.
Trace vocabulary (shared with trace.normalise):
  ('e', id) enter state   ('x', id) exit state   ('t', vid) transition taken / its content executed
  ('c', vid) executable element executed   ('log', label, text)   ('ev', name) event dequeued
  ('cfg', (ids in document order)) configuration after a microstep   ('comp',) exitInterpreter begins
  ('err', vid) element raised error.execution (C07 fragment)
"""
from chart import *


class Budget(Exception):
    pass


def ref_name_match(descs, name):
    """Rec. 3.12.1: token-wise prefix match; '*' matches all; trailing '.*' / '.' ignored."""
    if not name:
        return False
    for d in descs.split():
        if d == '*':
            return True
        while d.endswith('.*'):
            d = d[:-2]
        while d.endswith('.'):
            d = d[:-1]
        if not d:
            continue
        if d == name or name.startswith(d + '.'):
            return True
    return False


def wrap64(n):
    n &= (1 << 64) - 1
    return n - (1 << 64) if n >= (1 << 63) else n


def wrap32(n):
    n &= (1 << 32) - 1
    return n - (1 << 32) if n >= (1 << 31) else n


class EvalError(Exception):
    pass


class Model:
    def __init__(self, chart, conflict='w3c', intwidth=64, max_micro=200, quirks=()):
        self.ch = chart
        self.conflict = conflict
        self.wrap = wrap64 if intwidth == 64 else wrap32
        self.max_micro = max_micro
        self.int_limit = 10 ** 9
        self.quirks = set(quirks)
        self.trace = []
        self.configuration = set()     # of State
        self.history = {}              # history State -> list of State
        self.iq = []
        self.eq = []
        self.vars = {}
        self.initialised = set()       # states whose late-bound data was initialised
        self.running = True
        self.micro = 0
        self.labels = set()
        self.cfg_seq = []

    # ---- helpers -----------------------------------------------------------------------------
    def doc(self, states):
        return sorted(states, key=lambda s: s.order)

    def emit(self, *e):
        self.trace.append(tuple(e))
        # high-water marks of the two queues (the Promela back-end emits bounded channels)
        if len(self.iq) > getattr(self, 'max_iq', 0):
            self.max_iq = len(self.iq)
        if len(self.eq) > getattr(self, 'max_eq', 0):
            self.max_eq = len(self.eq)

    def eval(self, e):
        k = e[0]
        if k == 'c':
            return e[1]
        if k == 'v':
            if e[1] not in self.vars:
                raise EvalError(e[1])
            return self.vars[e[1]]
        if k in ('+', '-', '*'):
            a, b = self.eval(e[1]), self.eval(e[2])
            r = a + b if k == '+' else (a - b if k == '-' else a * b)
            if abs(r) > self.int_limit:
                # values beyond the range every datamodel prints exactly are outside this property's fragment
                # (number formatting is C16's subject): stop comparing here
                raise Budget()
            return self.wrap(r)
        if k == 'in':
            return self.ch.by_id[e[1]] in self.configuration
        if k == '<':
            return self.eval(e[1]) < self.eval(e[2])
        if k == '<=':
            return self.eval(e[1]) <= self.eval(e[2])
        if k == '==':
            return self.eval(e[1]) == self.eval(e[2])
        if k == '!=':
            return self.eval(e[1]) != self.eval(e[2])
        if k == '>':
            return self.eval(e[1]) > self.eval(e[2])
        if k == '>=':
            return self.eval(e[1]) >= self.eval(e[2])
        if k == 'and':
            return bool(self.eval(e[1])) and bool(self.eval(e[2]))
        if k == 'or':
            return bool(self.eval(e[1])) or bool(self.eval(e[2]))
        if k == 'not':
            return not self.eval(e[1])
        if k == 'true':
            return True
        if k == 'false':
            return False
        if k == 'bad':
            raise EvalError('bad')
        raise ValueError(e)

    def cond(self, t):
        if t.cond is None:
            return True
        try:
            return bool(self.eval(t.cond))
        except EvalError:
            # Rec 5.9.1 / 3.12.2: error.execution, treated as false
            self.iq.append('error.execution')
            return False

    # ---- executable content --------------------------------------------------------------------
    def exec_block(self, block):
        """runs one block of executable content; an error aborts the rest of the block (Rec 4.1)"""
        try:
            for x in block:
                self.exec_one(x)
        except EvalError:
            pass

    def fail(self, x, name='error.execution'):
        self.iq.append(name)
        self.emit('err', x.vid)
        raise EvalError(x.vid)

    def exec_one(self, x):
        self.emit('c', x.vid)
        k = x.kind
        if k == 'log':
            try:
                v = self.eval(x.expr)
            except EvalError:
                self.fail(x)
            if isinstance(v, bool):
                v = 'true' if v else 'false'
            self.emit('log', x.label, str(v))
        elif k == 'raise':
            self.iq.append(x.event)
        elif k == 'send':
            if x.internal:
                self.iq.append(x.event)
            else:
                self.eq.append(x.event)
        elif k == 'assign':
            if x.var not in self.vars:
                self.fail(x)
            try:
                v = self.eval(x.expr)
            except EvalError:
                self.fail(x)
            self.vars[x.var] = v
        elif k == 'if':
            for c, body in x.branches:
                if c is None:
                    ok = True
                else:
                    try:
                        ok = bool(self.eval(c))
                    except EvalError:
                        # Rec 5.9.1: an erroneous conditional is treated as false, error.execution is raised,
                        # execution of the block continues
                        self.iq.append('error.execution')
                        self.emit('err', x.vid)
                        ok = False
                if ok:
                    for y in body:
                        self.exec_one(y)
                    break
        elif k == 'fault':
            if x.which == 'if_badcond':
                self.iq.append('error.execution')
                self.emit('err', x.vid)
                return
            self.fail(x)
        else:
            raise ValueError(k)

    # ---- structure functions ---------------------------------------------------------------------
    def effective_targets(self, t):
        r = []
        for tid in t.targets:
            s = self.ch.by_id[tid]
            if s.kind == 'history':
                if s in self.history:
                    for h in self.history[s]:
                        if h not in r:
                            r.append(h)
                else:
                    for h in self.effective_targets(s.transitions[0]):
                        if h not in r:
                            r.append(h)
            else:
                if s not in r:
                    r.append(s)
        return r

    def find_lcca(self, states):
        for anc in states[0].ancestors():
            if anc.kind == 'scxml' or anc.is_compound():
                if all(s.is_descendant_of(anc) for s in states[1:]):
                    return anc
        return None

    def domain(self, t):
        tstates = self.effective_targets(t)
        if not tstates:
            return None
        if t.internal and t.source.is_compound() and t.source.kind != 'scxml' and \
                all(s.is_descendant_of(t.source) for s in tstates):
            return t.source
        return self.find_lcca([t.source] + tstates)

    def exit_set(self, ts):
        if 'large-select' in self.quirks or 'fast-select' in self.quirks:
            r = set()
            for t in ts:
                a, b = self._large_interval(t)
                if a != 0:
                    r |= set(s for s in self.configuration if a <= s.order <= b)
            return r
        r = set()
        for t in ts:
            if t.targets:
                d = self.domain(t)
                for s in self.configuration:
                    if d is not None and s.is_descendant_of(d):
                        r.add(s)
        return r

    def is_in_final(self, s):
        if s.is_compound():
            return any(c.kind == 'final' and c in self.configuration for c in s.proper_children())
        if s.kind == 'parallel':
            return all(self.is_in_final(c) for c in s.proper_children())
        return False

    # ---- selection ---------------------------------------------------------------------------
    def select(self, event):
        if 'large-select' in self.quirks:
            return self.select_large(event)
        if 'fast-select' in self.quirks:
            return self.select_fast(event)
        enabled = []
        atomic = [s for s in self.doc(self.configuration) if s.is_atomic()]
        for st in atomic:
            done = False
            for s in [st] + st.ancestors():
                for t in s.transitions:
                    if t.kind != 'normal':
                        continue
                    if event is None:
                        if t.events:
                            continue
                    else:
                        if not t.events or not ref_name_match(" ".join(t.events), event):
                            continue
                    if self.cond(t):
                        if t not in enabled:
                            enabled.append(t)
                        done = True
                        break
                if done:
                    break
        if len(enabled) > 1:
            self.labels.add('multi-enabled')
        return self.remove_conflicting(enabled)

    # ---- quirk: transcription of LargeMicroStep's SELECT_TRANSITIONS (known finding F-C01-1) ----------
    def _postfix(self):
        if not hasattr(self, '_pf'):
            self._pf = {}
            cnt = [0]

            def walk(s):
                for c in s.children:
                    walk(c)
                self._pf[s] = cnt[0]
                cnt[0] += 1
            walk(self.ch.root)
            self._lq_compat = {}
            self._lq_confl = {}
        return self._pf

    def _large_domain(self, t):
        if not t.targets:
            return None
        tg = [self.ch.by_id[x] for x in t.targets]
        src = t.source
        if t.internal and src.is_compound():
            if all(x.is_descendant_of(src) for x in tg):
                return src
        for anc in src.ancestors():
            if not (anc.is_compound() or anc.kind == 'scxml'):
                continue
            if all(x.is_descendant_of(anc) for x in tg):
                return anc
        return self.ch.root

    def _large_interval(self, t):
        d = self._large_domain(t)
        if d is None:
            return (0, 0)
        first = d.order + 1
        second = max([x.order for x in d.descendants()] + [d.order])
        return (first, second)

    def select_fast(self, event):
        """transcription of FastMicroStep's selection: all transitions in post-fix order, first wins,
        conflict = exit intervals overlap or sources equal / ancestrally related (known finding F-C03-1)"""
        pf = self._postfix()
        tkey = lambda t: (pf[t.source], t.source.transitions.index(t))
        order = sorted([t for t in self.ch.transitions if t.kind == 'normal'], key=tkey)
        taken, conflicts = [], set()

        def conflict(a, b):
            e1, e2 = self._large_interval(a), self._large_interval(b)
            if not (e1[0] == 0 and e2[0] == 0):
                if (e1[0] <= e2[0] and e1[1] >= e2[0]) or (e2[0] <= e1[0] and e2[1] >= e1[0]):
                    return True
            return a.source is b.source or a.source.is_descendant_of(b.source) or b.source.is_descendant_of(a.source)
        for t in order:
            if t.source not in self.configuration or t in conflicts:
                continue
            if (not t.events and event is not None) or (t.events and event is None):
                continue
            if event is not None and not ref_name_match(" ".join(t.events), event):
                continue
            if not self.cond(t):
                continue
            taken.append(t)
            for u in order:
                if u is not t and conflict(t, u):
                    conflicts.add(u)
        return taken

    def select_large(self, event):
        pf = self._postfix()
        states = sorted([s for s in self.configuration if s.transitions], key=lambda s: pf[s])
        trans_set = []
        comp, conf = set(), set()
        found = False
        i, n = 0, len(states)
        tkey = lambda t: (pf[t.source], t.source.transitions.index(t))
        while i < n:
            state = states[i]
            i += 1
            for t in state.transitions:
                if t.kind != 'normal':
                    continue
                if (not t.events and event is not None) or (t.events and event is None):
                    continue
                if found:
                    if t in conf:
                        continue
                    if t not in comp:
                        conflicts = False
                        for en in sorted(trans_set, key=tkey):
                            if t in self._lq_compat.setdefault(en, set()) or t in self._lq_confl.setdefault(en, set()):
                                continue
                            e1, e2 = self._large_interval(t), self._large_interval(en)
                            if e1[0] != 0 and e2[0] != 0 and ((e1[0] <= e2[0] and e1[1] >= e2[0]) or (e2[0] <= e1[0] and e2[1] >= e1[0])):
                                self._lq_confl.setdefault(t, set()).add(en)
                                self._lq_confl.setdefault(en, set()).add(t)
                                conflicts = True
                                break
                            else:
                                self._lq_compat.setdefault(t, set()).add(en)
                                self._lq_compat.setdefault(en, set()).add(t)
                        if conflicts:
                            continue
                if event is not None and not ref_name_match(" ".join(t.events), event):
                    continue
                if not self.cond(t):
                    continue
                if found:
                    comp = set(x for x in comp if x in self._lq_compat.get(t, ()))
                    conf |= self._lq_confl.get(t, set())
                else:
                    comp = set(self._lq_compat.get(t, ()))
                    conf = set(self._lq_confl.get(t, ()))
                found = True
                trans_set.append(t)
                while i < n and state.is_descendant_of(states[i]):
                    i += 1
                break
        return sorted(trans_set, key=tkey)

    def remove_conflicting(self, enabled):
        filtered = []
        for t1 in enabled:
            preempted = False
            to_remove = []
            for t2 in filtered:
                if self.exit_set([t1]) & self.exit_set([t2]):
                    self.labels.add('preemption')
                    if t1.source.is_descendant_of(t2.source):
                        to_remove.append(t2)
                    else:
                        preempted = True
                        break
            if not preempted:
                for t3 in to_remove:
                    filtered.remove(t3)
                filtered.append(t1)
        return filtered

    # ---- microstep -----------------------------------------------------------------------------
    def microstep(self, ts):
        self.micro += 1
        if self.micro > self.max_micro:
            raise Budget()
        # a transition has ONE domain per microstep: the one its exit set was computed from. (Read literally, the Rec.'s
        # enterStates() recomputes it after exitStates() updated the history, which for a target that is the history of a
        # state exited in this very microstep can yield a smaller domain and leave that state un-entered.)
        self._last_all_targetless = all(not t.targets and t.events for t in ts)
        static = 'large-select' in self.quirks or 'fast-select' in self.quirks
        self._domain_cache = {id(t): (self._large_domain(t) if static else self.domain(t)) for t in ts if isinstance(t, Trans)}
        self.exit_states(ts)
        for t in ts:
            self.emit('t', t.vid)
            if not t.targets:
                self.labels.add('targetless')
            if t.internal:
                self.labels.add('internal')
            if len(t.targets) > 1:
                self.labels.add('multi-target')
            self.exec_block(t.content)
        self.enter_states(ts)
        self.emit_cfg()

    def emit_cfg(self):
        c = tuple(s.id for s in self.doc(self.configuration))
        self.cfg_seq.append(c)
        self.emit('cfg', c)

    def exit_states(self, ts):
        to_exit = sorted(self.exit_set(ts), key=lambda s: -s.order)
        for s in to_exit:
            for h in s.children:
                if h.kind == 'history':
                    if h.hist_type == 'deep':
                        self.history[h] = [s0 for s0 in self.doc(self.configuration) if s0.is_atomic() and s0.is_descendant_of(s)]
                    else:
                        self.history[h] = [s0 for s0 in self.doc(self.configuration) if s0.parent is s]
                    self.labels.add('history-recorded')
        for s in to_exit:
            self.emit('x', s.id)
            for b in s.onexit:
                self.exec_block(b)
            self.configuration.discard(s)

    def enter_states(self, ts):
        to_enter = []
        default_entry = []
        default_hist = {}
        self.compute_entry_set(ts, to_enter, default_entry, default_hist)
        for s in self.doc(to_enter):
            self.emit('e', s.id)
            self.configuration.add(s)
            if s.kind == 'parallel':
                self.labels.add('parallel')
            if self.ch.binding == 'late' and s not in self.initialised:
                self.init_data(s)
            for b in s.onentry:
                self.exec_block(b)
            if s in default_entry:
                it = self.initial_transition(s)
                if it is not None and it.vid is not None:
                    self.emit('t', it.vid)
                    self.exec_block(it.content)
            if s in default_hist:
                for ht in default_hist[s]:
                    self.emit('t', ht.vid)
                    self.exec_block(ht.content)
            if s.kind == 'final':
                if s.parent.kind == 'scxml':
                    self.running = False
                else:
                    parent = s.parent
                    grandparent = parent.parent
                    self.iq.append('done.state.' + parent.id)
                    self.labels.add('done-state')
                    if grandparent.kind == 'parallel':
                        if all(self.is_in_final(c) for c in grandparent.proper_children()):
                            self.iq.append('done.state.' + grandparent.id)
                            self.labels.add('done-parallel')

    def init_data(self, s):
        self.initialised.add(s)
        for name, e in s.datas:
            try:
                self.vars[name] = self.eval(e)
            except EvalError:
                self.iq.append('error.execution')

    class _Init:
        """synthetic initial transition for 'initial' attribute / first child default"""
        def __init__(self, targets):
            self.targets = targets
            self.content = []
            self.vid = None

    def initial_transition(self, s):
        for c in s.children:
            if c.kind == 'initial':
                return c.transitions[0]
        if s.initial_attr:
            return Model._Init(list(s.initial_attr))
        pc = s.proper_children()
        return Model._Init([pc[0].id]) if pc else None

    def compute_entry_set(self, ts, to_enter, default_entry, default_hist):
        for t in ts:
            for tid in t.targets:
                self.add_descendants(self.ch.by_id[tid], to_enter, default_entry, default_hist)
            anc = (self._domain_cache[id(t)] if id(t) in getattr(self, '_domain_cache', {}) else self.domain(t)) if isinstance(t, Trans) else None
            for s in (self.effective_targets(t) if isinstance(t, Trans) else [self.ch.by_id[x] for x in t.targets]):
                self.add_ancestors(s, anc, to_enter, default_entry, default_hist)

    def add_descendants(self, state, to_enter, default_entry, default_hist):
        if state.kind == 'history':
            if state in self.history:
                self.labels.add('history-restored')
                for s in self.history[state]:
                    self.add_descendants(s, to_enter, default_entry, default_hist)
                for s in self.history[state]:
                    self.add_ancestors(s, state.parent, to_enter, default_entry, default_hist)
            else:
                self.labels.add('history-default')
                ht = state.transitions[0]
                default_hist.setdefault(state.parent, []).append(ht)
                for tid in ht.targets:
                    self.add_descendants(self.ch.by_id[tid], to_enter, default_entry, default_hist)
                for tid in ht.targets:
                    self.add_ancestors(self.ch.by_id[tid], state.parent, to_enter, default_entry, default_hist)
        else:
            if state not in to_enter:
                to_enter.append(state)
            if state.is_compound():
                if state not in default_entry:
                    default_entry.append(state)
                it = self.initial_transition(state)
                for tid in it.targets:
                    self.add_descendants(self.ch.by_id[tid], to_enter, default_entry, default_hist)
                for tid in it.targets:
                    self.add_ancestors(self.ch.by_id[tid], state, to_enter, default_entry, default_hist)
            elif state.kind == 'parallel':
                for child in state.proper_children():
                    if not any(s.is_descendant_of(child) or s is child for s in to_enter):
                        self.add_descendants(child, to_enter, default_entry, default_hist)

    def add_ancestors(self, state, ancestor, to_enter, default_entry, default_hist):
        for anc in state.ancestors():
            if anc is ancestor:
                break
            if anc not in to_enter:
                to_enter.append(anc)
            if anc.kind == 'parallel':
                for child in anc.proper_children():
                    if not any(s.is_descendant_of(child) or s is child for s in to_enter):
                        self.add_descendants(child, to_enter, default_entry, default_hist)

    # ---- main loop -----------------------------------------------------------------------------
    def run(self, events):
        """events: list of external event names, fed one at a time whenever the machine is idle"""
        ch = self.ch
        pending = list(events)
        try:
            for name, val in ch.variables:
                self.vars[name] = val
            if ch.binding == 'early':
                for s in ch.states:
                    if s.datas:
                        self.init_data(s)
            else:
                pass
            # entering the document: uscxml reports the <scxml> element as the outermost state
            root = ch.root
            self.micro += 1
            self.emit('e', root.id)
            self.configuration.add(root)
            if ch.binding == 'late' and root.datas:
                self.init_data(root)
            it = self.initial_transition(root)
            to_enter, default_entry, default_hist = [], [], {}
            for tid in it.targets:
                self.add_descendants(ch.by_id[tid], to_enter, default_entry, default_hist)
            for tid in it.targets:
                self.add_ancestors(ch.by_id[tid], root, to_enter, default_entry, default_hist)
            fake = Model._Init([])
            self._enter_list(to_enter, default_entry, default_hist, it)
            self.emit_cfg()
            self.main_loop(pending)
        except Budget:
            self.emit('budget')
            return self.trace
        return self.trace

    def _enter_list(self, to_enter, default_entry, default_hist, root_initial):
        # same as the body of enter_states, for the document's initial entry
        saved = (to_enter, default_entry, default_hist)

        class _T:
            pass
        # reuse enter_states' loop by temporarily overriding compute_entry_set
        orig = self.compute_entry_set

        def fixed(ts, te, de, dh):
            te.extend(to_enter)
            de.extend(default_entry)
            dh.update(default_hist)
        self.compute_entry_set = fixed
        try:
            self.enter_states([])
        finally:
            self.compute_entry_set = orig
        if root_initial.vid is not None:
            pass

    def main_loop(self, pending):
        while self.running:
            macro_done = False
            while self.running and not macro_done:
                enabled = self.select(None)
                if enabled and getattr(self, '_last_all_targetless', False):
                    self.labels.add('eventless-after-targetless-only')
                if not enabled:
                    if not self.iq:
                        macro_done = True
                    else:
                        ev = self.iq.pop(0)
                        self.emit('ev', ev)
                        enabled = self.select(ev)
                if enabled:
                    self.microstep(enabled)
            if not self.running:
                break
            if self.iq:
                continue
            self.emit('stable')
            if self.eq:
                ev = self.eq.pop(0)
            elif pending:
                ev = pending.pop(0)
            else:
                return
            self.emit('ev', ev)
            enabled = self.select(ev)
            if enabled:
                self.microstep(enabled)
        self.exit_interpreter()

    def exit_interpreter(self):
        self.emit('comp')
        for s in sorted(self.configuration, key=lambda s: -s.order):
            for b in s.onexit:
                self.exec_block(b)
        self.emit('finished')
