"""Normalisation of worker traces into the model's vocabulary, and comparison helpers."""
import re

_num = re.compile(r'^-?\d+\.0$')


def norm_value(v):
    v = v.strip()
    if len(v) >= 2 and v[0] == '"' and v[-1] == '"':
        v = v[1:-1]
    if _num.match(v):
        v = v[:-2]
    return v


def normalise(raw, keep_content=True, keep_steps=False):
    """raw: list from worker 'trace'. -> list of tuples in model vocabulary"""
    out = []
    want_cfg = False
    for e in raw:
        k = e[0]
        if k == 'be':
            out.append(('e', e[1]))
        elif k == 'bx':
            out.append(('x', e[1]))
        elif k == 'bt':
            out.append(('t', e[1]))
        elif k == 'bc':
            if keep_content:
                out.append(('c', e[1]))
        elif k == 'log':
            msg = e[1]
            if msg.endswith('\n'):
                msg = msg[:-1]
            if ': ' in msg:
                label, val = msg.split(': ', 1)
            else:
                label, val = '', msg
            out.append(('log', label, norm_value(val)))
        elif k == 'ev':
            out.append(('ev', e[1]))
        elif k == 'am':
            want_cfg = True
        elif k == 'cfg':
            if want_cfg:
                out.append(('cfg', tuple(e[1])))
                want_cfg = False
        elif k == 'stable':
            out.append(('stable',))
        elif k == 'bcomp':
            out.append(('comp',))
        elif k == 'fed' or k == 'ser' or k == 'deserialized':
            pass
        elif k == 'st':
            if keep_steps:
                out.append(('st', e[1]))
            if e[1] == 'FINISHED' and ('finished',) not in out[-1:]:
                out.append(('finished',))
    return out


def model_view(trace):
    return [e for e in trace if e[0] != 'err']


def first_diff(a, b):
    n = min(len(a), len(b))
    for i in range(n):
        if a[i] != b[i]:
            return i
    if len(a) != len(b):
        return n
    return -1


def diff_window(a, b, i, w=6):
    lo = max(0, i - w)
    return {"index": i, "expected": [list(map(str, x)) for x in a[lo:i + w]], "observed": [list(map(str, x)) for x in b[lo:i + w]]}
