"""Client for the persistent C++ worker (src/worker)."""
import os, subprocess, json, select, tempfile, signal, time

VERIF = os.path.dirname(os.path.dirname(os.path.abspath(__file__)))
WORK = os.path.join(VERIF, ".work")


class WorkerCrash(Exception):
    def __init__(self, msg, stderr="", returncode=None):
        Exception.__init__(self, msg)
        self.stderr = stderr
        self.returncode = returncode


class WorkerHang(Exception):
    pass


def worker_env(tmpdir=None):
    env = dict(os.environ)
    env["USCXML_NOCACHE_FILES"] = "1"
    env["ASAN_OPTIONS"] = "detect_leaks=0:abort_on_error=0:handle_abort=1:allocator_may_return_null=1:detect_stack_use_after_return=0"
    env["UBSAN_OPTIONS"] = "print_stacktrace=1:halt_on_error=1"
    env["TSAN_OPTIONS"] = "halt_on_error=0:report_signal_unsafe=0"
    if tmpdir:
        env["TMPDIR"] = tmpdir
    return env


class Worker:
    def __init__(self, variant="san", name="worker", timeout=20.0, extra_env=None, prefix=None, drop_env=()):
        self.variant = variant
        self.path = os.path.join(WORK, "bin", "%s-%s" % (name, variant))
        self.timeout = timeout
        self.proc = None
        self.errf = None
        self.extra_env = extra_env or {}
        self.prefix = list(prefix or [])
        self.drop_env = tuple(drop_env)
        self.calls = 0
        self.restarts = 0

    def start(self):
        self.stop()
        self.errf = tempfile.TemporaryFile(dir=os.path.join(WORK, "scratch") if os.path.isdir(os.path.join(WORK, "scratch")) else None)
        env = worker_env()
        env.update(self.extra_env)
        for k in self.drop_env:
            env.pop(k, None)
        self.proc = subprocess.Popen(self.prefix + [self.path], stdin=subprocess.PIPE, stdout=subprocess.PIPE, stderr=self.errf,
                                     env=env, bufsize=0)
        self.restarts += 1

    def stop(self):
        if self.proc is not None:
            try:
                self.proc.kill()
                self.proc.wait()
            except Exception:
                pass
            for f in (self.proc.stdin, self.proc.stdout):
                try:
                    f.close()
                except Exception:
                    pass
            self.proc = None
        if self.errf is not None:
            self.errf.close()
            self.errf = None

    def _stderr_tail(self, n=6000):
        try:
            self.errf.seek(0)
            data = self.errf.read()
            # a sanitizer report starts with its most useful part: keep the head of the report rather than its tail
            i = max(data.find(b"ERROR: AddressSanitizer"), data.find(b"ERROR: ThreadSanitizer"))
            if i >= 0 and len(data) - i > n:
                return (data[max(0, i - 300):i + 2 * n] + b"\n[...]\n" + data[-1500:]).decode("latin-1")
            return data[-n:].decode("latin-1")
        except Exception:
            return ""

    def _read_exact(self, n, deadline):
        buf = b""
        fd = self.proc.stdout.fileno()
        while len(buf) < n:
            left = deadline - time.time()
            if left <= 0:
                raise WorkerHang()
            r, _, _ = select.select([fd], [], [], left)
            if not r:
                raise WorkerHang()
            chunk = os.read(fd, min(1 << 20, n - len(buf)))
            if not chunk:
                raise EOFError()
            buf += chunk
        return buf

    def _read_line(self, deadline):
        buf = b""
        while True:
            c = self._read_exact(1, deadline)
            if c == b"\n":
                return buf
            buf += c

    def call(self, *args, timeout=None):
        """args: str or bytes. returns parsed JSON (dict). Raises WorkerCrash / WorkerHang."""
        if self.proc is None or self.proc.poll() is not None:
            self.start()
        self.calls += 1
        msg = [b"%d\n" % len(args)]
        for a in args:
            if isinstance(a, str):
                a = a.encode("utf-8")
            msg.append(b"%d\n" % len(a))
            msg.append(a)
            msg.append(b"\n")
        deadline = time.time() + (timeout or self.timeout)
        try:
            self.proc.stdin.write(b"".join(msg))
            self.proc.stdin.flush()
            n = int(self._read_line(deadline))
            body = self._read_exact(n, deadline)
            self._read_exact(1, deadline)
        except WorkerHang:
            err = self._stderr_tail()
            if os.environ.get("VERIF_GDB_ON_HANG"):
                try:
                    bt = subprocess.run(["gdb", "-p", str(self.proc.pid), "-batch", "-ex", "thread apply all bt 14"], stdout=subprocess.PIPE,
                                        stderr=subprocess.DEVNULL, text=True, timeout=120).stdout
                    err = (err or "") + "\n--- gdb ---\n" + bt
                except Exception as e:
                    err = (err or "") + "\n(gdb failed: %s)" % e
            self.stop()
            raise WorkerHang(err)
        except (EOFError, BrokenPipeError, ValueError, OSError):
            rc = None
            try:
                rc = self.proc.wait(timeout=5)
            except Exception:
                pass
            err = self._stderr_tail()
            self.stop()
            raise WorkerCrash("worker died (rc=%s)" % rc, err, rc)
        return json.loads(body.decode("utf-8"))
