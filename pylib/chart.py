"""Abstract SCXML chart AST + renderers (lua / promela / null datamodels).

Everything the reference model (model.py) and the generators need lives here; it shares nothing with
the code under test.
"""
import json

NS = "http://www.w3.org/2005/07/scxml"

# ---------------------------------------------------------------------------------------------
# expressions (abstract)
#   int : ('c', n) | ('v', name) | ('+'|'-'|'*', a, b)
#   bool: ('in', id) | ('<'|'<='|'=='|'!='|'>'|'>=', a, b) | ('and', a, b) | ('or', a, b) | ('not', a)
#         | ('true',) | ('false',)
#   fault (C07): ('bad',)  -- an expression every datamodel rejects at evaluation time


def render_expr(e, dm):
    k = e[0]
    if k == 'c':
        n = e[1]
        return str(n) if n >= 0 else ("(0 - %d)" % -n)
    if k == 'v':
        return e[1]
    if k in ('+', '-', '*'):
        return "(%s %s %s)" % (render_expr(e[1], dm), k, render_expr(e[2], dm))
    if k == 'in':
        if dm == 'promela':
            return "_x.states['%s']" % e[1]
        return "In('%s')" % e[1]
    if k in ('<', '<=', '==', '!=', '>', '>='):
        op = k
        if dm == 'lua' and k == '!=':
            op = '~='
        return "(%s %s %s)" % (render_expr(e[1], dm), op, render_expr(e[2], dm))
    if k == 'and':
        return "(%s %s %s)" % (render_expr(e[1], dm), 'and' if dm == 'lua' else '&&', render_expr(e[2], dm))
    if k == 'or':
        return "(%s %s %s)" % (render_expr(e[1], dm), 'or' if dm == 'lua' else '||', render_expr(e[2], dm))
    if k == 'not':
        return "(%s %s)" % ('not' if dm == 'lua' else '!', render_expr(e[1], dm))
    if k == 'true':
        return 'true' if dm in ('lua', 'null') else '1'
    if k == 'false':
        return 'false' if dm in ('lua', 'null') else '0'
    if k == 'bad':
        return '%%% !!'
    if k == 'raw':
        return e[1]
    raise ValueError(e)


def expr_vars(e, out=None):
    out = set() if out is None else out
    if e[0] == 'v':
        out.add(e[1])
    elif e[0] in ('c', 'in', 'true', 'false', 'bad', 'raw'):
        pass
    else:
        for s in e[1:]:
            expr_vars(s, out)
    return out


def expr_ins(e, out=None):
    out = set() if out is None else out
    if e[0] == 'in':
        out.add(e[1])
    elif e[0] in ('c', 'v', 'true', 'false', 'bad', 'raw'):
        pass
    else:
        for s in e[1:]:
            expr_ins(s, out)
    return out


# ---------------------------------------------------------------------------------------------
# executable content (abstract); every element carries a vid assigned by Chart.finish()
#   Log(label, expr) Raise(event) Send(event) Assign(var, expr) If([(cond, [exec..]), ..., (None, [..])])
#   Foreach(n, body)  (iterates a constant array of n items)

class Exec:
    kind = '?'
    vid = None

    def children(self):
        return []


class Log(Exec):
    kind = 'log'

    def __init__(self, label, expr):
        self.label, self.expr = label, expr


class Raise(Exec):
    kind = 'raise'

    def __init__(self, event):
        self.event = event


class Send(Exec):
    """immediate <send> to the own session: target None (external queue) or '#_internal'"""
    kind = 'send'

    def __init__(self, event, internal=False, delay_ms=0):
        self.event, self.internal, self.delay_ms = event, internal, delay_ms


class Assign(Exec):
    kind = 'assign'

    def __init__(self, var, expr):
        self.var, self.expr = var, expr


class If(Exec):
    kind = 'if'

    def __init__(self, branches):
        self.branches = branches  # [(cond|None, [Exec])]; first has cond; None only last
        self.branch_vids = []

    def children(self):
        return [x for _, b in self.branches for x in b]


class Fault(Exec):
    """C07: an element that must fail when executed. which in FAULT_KINDS"""
    kind = 'fault'

    def __init__(self, which):
        self.which = which


FAULT_KINDS = ['log_badexpr', 'assign_badexpr', 'assign_undeclared', 'assign_sysvar', 'send_badtype',
               'send_badtarget', 'if_badcond', 'raise_noevent_ok', 'send_badparam', 'send_badparam_runtime', 'send_badeventexpr',
               'send_baddelayexpr', 'log_runtime', 'foreach_badarray']


class Trans:
    def __init__(self, events=None, cond=None, targets=None, internal=False, content=None):
        self.events = events or []          # list of descriptors; [] = eventless
        self.cond = cond
        self.targets = targets or []        # ids
        self.internal = internal
        self.content = content or []        # [Exec]
        self.vid = None
        self.source = None                  # State
        self.kind = 'normal'                # 'normal' | 'initial' | 'history'


class State:
    def __init__(self, kind, id=None, children=None, transitions=None, onentry=None, onexit=None,
                 initial_attr=None, hist_type='shallow', datas=None):
        self.kind = kind                    # scxml state parallel final history initial
        self.id = id
        self.children = children or []      # document order, pseudo states included
        self.transitions = transitions or []
        self.onentry = onentry or []        # list of blocks (each [Exec])
        self.onexit = onexit or []
        self.initial_attr = initial_attr    # list of ids or None
        self.hist_type = hist_type
        self.datas = datas or []            # [(var, expr)]
        self.parent = None
        self.order = -1
        self.block_vids = {}

    # -- structure helpers ----------------------------------------------------------------
    def proper_children(self):
        return [c for c in self.children if c.kind in ('state', 'parallel', 'final')]

    def is_atomic(self):
        return self.kind == 'final' or (self.kind == 'state' and not self.proper_children())

    def is_compound(self):
        return self.kind in ('state', 'scxml') and bool(self.proper_children())

    def is_proper(self):
        return self.kind in ('state', 'parallel', 'final', 'scxml')

    def ancestors(self):
        r, p = [], self.parent
        while p is not None:
            r.append(p)
            p = p.parent
        return r

    def is_descendant_of(self, other):
        p = self.parent
        while p is not None:
            if p is other:
                return True
            p = p.parent
        return False

    def descendants(self):
        r = []
        for c in self.children:
            r.append(c)
            r.extend(c.descendants())
        return r


class Chart:
    def __init__(self, root, datamodel='lua', binding='early', variables=None, name='m'):
        self.root = root
        self.datamodel = datamodel
        self.binding = binding
        self.variables = variables or []   # [(name, int)] root-level data
        self.name = name
        self.finish()

    def finish(self):
        self.states = []
        self.by_id = {}
        self.transitions = []
        self.execs = {}
        cnt = [0]

        def number_block(owner, tag, blocks):
            for bi, b in enumerate(blocks):
                bv = "%s.%s%d" % (owner, tag, bi)
                number_execs(bv, b)

        def number_execs(prefix, lst):
            for i, x in enumerate(lst):
                x.vid = "%s.%d" % (prefix, i)
                self.execs[x.vid] = x
                if isinstance(x, If):
                    x.branch_vids = []
                    for bi, (c, body) in enumerate(x.branches):
                        number_execs("%s.b%d" % (x.vid, bi), body)

        def walk(s, parent):
            s.parent = parent
            s.order = len(self.states)
            self.states.append(s)
            if s.kind == 'scxml':
                s.id = '#root'
            self.by_id[s.id] = s
            number_block(s.id, 'en', s.onentry)
            number_block(s.id, 'ex', s.onexit)
            for i, t in enumerate(s.transitions):
                t.source = s
                t.vid = "%s.t%d" % (s.id, i)
                t.kind = {'initial': 'initial', 'history': 'history'}.get(s.kind, 'normal')
                t.order = len(self.transitions)
                self.transitions.append(t)
                number_execs(t.vid, t.content)
            for c in s.children:
                walk(c, s)
        walk(self.root, None)

    def state(self, id):
        return self.by_id[id]

    # -- rendering ---------------------------------------------------------------------------
    def to_xml(self, datamodel=None):
        dm = datamodel or self.datamodel
        out = []
        w = out.append

        def esc(s):
            return (str(s).replace("&", "&amp;").replace("<", "&lt;").replace(">", "&gt;").replace('"', "&quot;"))

        def expr(e):
            return esc(render_expr(e, dm))

        def render_execs(lst, ind):
            for x in lst:
                render_exec(x, ind)

        def render_exec(x, ind):
            v = ' vid="%s"' % x.vid
            if x.kind == 'log':
                w('%s<log%s label="%s" expr="%s"/>' % (ind, v, esc(x.label), expr(x.expr)))
            elif x.kind == 'raise':
                w('%s<raise%s event="%s"/>' % (ind, v, esc(x.event)))
            elif x.kind == 'send':
                dl = ' delay="%dms"' % x.delay_ms if getattr(x, 'delay_ms', 0) else ''
                if x.internal:
                    w('%s<send%s event="%s" target="#_internal"%s/>' % (ind, v, esc(x.event), dl))
                else:
                    w('%s<send%s event="%s"%s/>' % (ind, v, esc(x.event), dl))
            elif x.kind == 'assign':
                w('%s<assign%s location="%s" expr="%s"/>' % (ind, v, esc(x.var), expr(x.expr)))
            elif x.kind == 'if':
                for bi, (c, body) in enumerate(x.branches):
                    if bi == 0:
                        w('%s<if%s cond="%s">' % (ind, v, expr(c)))
                    elif c is not None:
                        w('%s<elseif cond="%s"/>' % (ind, expr(c)))
                    else:
                        w('%s<else/>' % ind)
                    render_execs(body, ind + '  ')
                w('%s</if>' % ind)
            elif x.kind == 'fault':
                k = x.which
                if k == 'log_badexpr':
                    w('%s<log%s label="F" expr="%s"/>' % (ind, v, esc(bad_expr(dm))))
                elif k == 'assign_badexpr':
                    w('%s<assign%s location="%s" expr="%s"/>' % (ind, v, x.var, esc(bad_expr(dm))))
                elif k == 'assign_undeclared':
                    w('%s<assign%s location="%s" expr="1"/>' % (ind, v, undeclared_loc(dm)))
                elif k == 'assign_sysvar':
                    w('%s<assign%s location="_sessionid" expr="1"/>' % (ind, v))
                elif k == 'send_badtype':
                    w('%s<send%s event="zz" type="http://example.invalid/no-such-ioproc"/>' % (ind, v))
                elif k == 'send_badtarget':
                    w('%s<send%s event="zz" target="!baz"/>' % (ind, v))
                elif k == 'if_badcond':
                    w('%s<if%s cond="%s"><log label="never" expr="1"/></if>' % (ind, v, esc(bad_expr(dm))))
                elif k == 'send_badparam':
                    w('%s<send%s event="zz"><param name="ok" expr="1"/><param name="p" expr="%s"/></send>' % (ind, v, esc(bad_expr(dm))))
                elif k == 'send_badparam_runtime':
                    w('%s<send%s event="zz"><param name="p" expr="%s"/></send>' % (ind, v, esc(runtime_bad_expr(dm))))
                elif k == 'send_badeventexpr':
                    w('%s<send%s eventexpr="%s"/>' % (ind, v, esc(bad_expr(dm))))
                elif k == 'send_baddelayexpr':
                    w('%s<send%s event="zz" delayexpr="%s"/>' % (ind, v, esc(bad_expr(dm))))
                elif k == 'log_runtime':
                    w('%s<log%s label="F" expr="%s"/>' % (ind, v, esc(runtime_bad_expr(dm))))
                elif k == 'foreach_badarray':
                    w('%s<foreach%s array="%s" item="it"><log label="never" expr="1"/></foreach>' % (ind, v, esc(bad_expr(dm))))
                else:
                    raise ValueError(k)
            else:
                raise ValueError(x.kind)

        def render_trans(t, ind):
            a = ' vid="%s"' % t.vid
            if t.events:
                a += ' event="%s"' % esc(" ".join(t.events))
            if t.cond is not None:
                a += ' cond="%s"' % expr(t.cond)
            if t.targets:
                a += ' target="%s"' % " ".join(t.targets)
            if t.internal:
                a += ' type="internal"'
            if t.content:
                w('%s<transition%s>' % (ind, a))
                render_execs(t.content, ind + '  ')
                w('%s</transition>' % ind)
            else:
                w('%s<transition%s/>' % (ind, a))

        def render_state(s, ind):
            if s.kind == 'scxml':
                a = ' xmlns="%s" version="1.0" vid="#root" name="%s"' % (NS, self.name)
                if dm != 'null':
                    a += ' datamodel="%s"' % dm
                if self.binding == 'late':
                    a += ' binding="late"'
                if s.initial_attr:
                    a += ' initial="%s"' % " ".join(s.initial_attr)
                w('<scxml%s>' % a)
                if dm != 'null' and (self.variables or s.datas):
                    w('  <datamodel>')
                    for name, val in self.variables:
                        w('    <data id="%s"%s expr="%s"/>' % (name, ' type="int"' if dm == 'promela' else '', val))
                    for name, e in s.datas:
                        w('    <data id="%s"%s expr="%s"/>' % (name, ' type="int"' if dm == 'promela' else '', expr(e)))
                    w('  </datamodel>')
                for c in s.children:
                    render_state(c, ind + '  ')
                w('</scxml>')
                return
            tag = s.kind
            a = ' id="%s" vid="%s"' % (s.id, s.id)
            if s.kind == 'initial':
                a = ' vid="%s"' % s.id
            if s.kind == 'history':
                a += ' type="%s"' % s.hist_type
            if s.initial_attr:
                a += ' initial="%s"' % " ".join(s.initial_attr)
            w('%s<%s%s>' % (ind, tag, a))
            if s.datas and dm != 'null':
                w('%s  <datamodel>' % ind)
                for name, e in s.datas:
                    w('%s    <data id="%s"%s expr="%s"/>' % (ind, name, ' type="int"' if dm == 'promela' else '', expr(e)))
                w('%s  </datamodel>' % ind)
            for bi, b in enumerate(s.onentry):
                w('%s  <onentry vid="%s.en%d">' % (ind, s.id, bi))
                render_execs(b, ind + '    ')
                w('%s  </onentry>' % ind)
            for bi, b in enumerate(s.onexit):
                w('%s  <onexit vid="%s.ex%d">' % (ind, s.id, bi))
                render_execs(b, ind + '    ')
                w('%s  </onexit>' % ind)
            for iid, child in getattr(s, 'invokes', []):
                w('%s  <invoke type="http://www.w3.org/TR/scxml/" id="%s" vid="%s.inv.%s">' % (ind, iid, s.id, iid))
                w('%s    <content>' % ind)
                w(child.to_xml(dm))
                w('%s    </content>' % ind)
                w('%s  </invoke>' % ind)
            # document order of children and transitions: transitions first, then children in given order
            for t in s.transitions:
                render_trans(t, ind + '  ')
            for c in s.children:
                render_state(c, ind + '  ')
            w('%s</%s>' % (ind, tag))

        render_state(self.root, '')
        return "\n".join(out) + "\n"

    def describe(self):
        """compact one-line-per-state text form for evidence samples"""
        return self.to_xml()


def bad_expr(dm):
    return {'lua': '%% !!', 'promela': '%% !!', 'null': '%% !!'}[dm]


def runtime_bad_expr(dm):
    """well-formed, fails when evaluated"""
    return {'lua': 'nosuch.field.deep', 'promela': '1 / 0', 'null': '%% !!'}[dm]


def undeclared_loc(dm):
    return {'lua': 'nosuch.field.deep', 'promela': 'nosuchvar', 'null': 'nosuchvar'}[dm]
