"""Hypothesis strategies for charts (valid by construction), event histories, and exhaustive enumerators."""
import itertools
from hypothesis import strategies as st
from chart import *

EVENT_NAMES = ['a', 'b', 'a.b', 'c']
DESCRIPTORS = [['a'], ['b'], ['a.b'], ['a.*'], ['*'], ['a', 'b'], ['c'], ['a.b', 'c']]


class GenOpts:
    def __init__(self, **kw):
        self.max_states = 9
        self.max_depth = 3
        self.content = True          # executable content
        self.data = True             # variables / conds on data
        self.history = True
        self.parallel = True
        self.finals = True
        self.multi_target = True
        self.targetless = True
        self.internal = True
        self.initial_elem = True
        self.deep_initial = True
        self.late_binding = True
        self.conds = True
        self.done_events = True
        self.send = True
        self.eventless = True
        self.faults = False          # C07
        self.local_data = True
        self.hist_targets = True
        self.nested_history = False
        self.targetless_weight = 1    # relative to 6 (one target) / 2 (two targets)
        self.in_conds = True         # In(state) predicates in conditions
        self.history_weight = 2       # out of 5: probability that a compound/parallel state gets a history
        self.two_histories = True     # a state may own a shallow and a deep history
        self.hist_target_weight = 1   # how often history ids are repeated in the target pool
        self.descriptors = None       # restrict event descriptors (list of lists)
        self.loose = False           # C02/C19: target lists the validator has to judge
        self.assign_weight = 3        # weight of <assign> among executable content (log 4, raise 3)
        self.eventless_weight = 2     # weight of eventless transitions (event descriptor: 8)
        self.extra_faults = ('send_badparam', 'send_badparam_runtime', 'send_badeventexpr', 'send_baddelayexpr', 'log_runtime', 'foreach_badarray')
        self.deep_initial_weight = 2   # weight of a deep 'initial' attribute (first child 4, child attribute 3, <initial> 2)
        self.eventless_targeted = False  # eventless transitions always have a target (a targetless one can only loop)
        self.__dict__.update(kw)


def weighted(draw, pairs):
    """pairs: [(value, weight)] -> value ; shrinks towards the first"""
    pool = []
    for v, w in pairs:
        pool.extend([v] * w)
    return draw(st.sampled_from(pool))


def lca_is_parallel(a, b):
    if a is b or a.is_descendant_of(b) or b.is_descendant_of(a):
        return False
    anc_a = [a] + a.ancestors()
    for x in b.ancestors():
        if x in anc_a:
            return x.kind == 'parallel'
    return False


@st.composite
def int_exprs(draw, vars_, depth=0):
    if not vars_ or depth >= 2:
        return ('c', draw(st.integers(0, 5)))
    k = weighted(draw, [('c', 3), ('v', 4), ('+', 2), ('-', 1), ('*', 1)])
    if k == 'c':
        return ('c', draw(st.integers(0, 5)))
    if k == 'v':
        return ('v', draw(st.sampled_from(vars_)))
    return (k, draw(int_exprs(vars_, depth + 1)), draw(int_exprs(vars_, depth + 1)))


@st.composite
def bool_exprs(draw, vars_, state_ids, depth=0, allow_data=True, allow_in=True):
    opts = [('in', 4)] if allow_in else []
    if vars_ and allow_data:
        opts.append(('cmp', 4))
    if depth < 1:
        opts += [('not', 1), ('and', 1), ('or', 1)]
    opts += [('true', 1), ('false', 1)]
    k = weighted(draw, opts)
    if k == 'in':
        return ('in', draw(st.sampled_from(state_ids)))
    if k == 'cmp':
        op = draw(st.sampled_from(['<', '==', '!=', '>=', '<=', '>']))
        return (op, draw(int_exprs(vars_, 1)), draw(int_exprs(vars_, 1)))
    if k == 'not':
        return ('not', draw(bool_exprs(vars_, state_ids, depth + 1, allow_data, allow_in)))
    if k in ('and', 'or'):
        return (k, draw(bool_exprs(vars_, state_ids, depth + 1, allow_data, allow_in)),
                draw(bool_exprs(vars_, state_ids, depth + 1, allow_data, allow_in)))
    return (k,)


@st.composite
def exec_blocks(draw, o, vars_, state_ids, label, depth=0, maxn=3):
    n = weighted(draw, [(0, 4), (1, 4), (2, 2), (3, 1)]) if depth == 0 else weighted(draw, [(1, 3), (0, 1), (2, 1)])
    n = min(n, maxn)
    out = []
    for i in range(n):
        kinds = [('log', 4), ('raise', 3)]
        if o.send:
            kinds.append(('send', 2))
            kinds.append(('sendi', 1))
        if vars_ and o.data:
            kinds.append(('assign', o.assign_weight))
        if depth < 1:
            kinds.append(('if', 2))
        if o.faults:
            kinds.append(('fault', 3))
        k = weighted(draw, kinds)
        if k == 'log':
            e = draw(int_exprs(vars_ if o.data else [], 1))
            out.append(Log("%s%d" % (label, i), e))
        elif k == 'raise':
            out.append(Raise(draw(st.sampled_from(['a', 'b', 'a.b', 'c', 'r']))))
        elif k == 'send':
            out.append(Send(draw(st.sampled_from(['a', 'b', 'c', 'a.b']))))
        elif k == 'sendi':
            out.append(Send(draw(st.sampled_from(['a', 'b', 'c'])), internal=True))
        elif k == 'assign':
            out.append(Assign(draw(st.sampled_from(vars_)), draw(int_exprs(vars_, 0))))
        elif k == 'if':
            nb = weighted(draw, [(1, 3), (2, 2), (3, 1)])
            branches = []
            for bi in range(nb):
                last_else = (bi == nb - 1 and nb > 1 and draw(st.booleans()))
                c = None if last_else else draw(bool_exprs(vars_ if o.data else [], state_ids, 1, True, o.in_conds))
                branches.append((c, draw(exec_blocks(o, vars_, state_ids, label + 'i', depth + 1))))
            out.append(If(branches))
        elif k == 'fault':
            which = draw(st.sampled_from(['log_badexpr', 'assign_badexpr', 'assign_undeclared', 'assign_sysvar',
                                          'send_badtype', 'send_badtarget', 'if_badcond'] + (list(o.extra_faults) if o.faults else [])))
            f = Fault(which)
            f.var = vars_[0] if vars_ else 'x'
            out.append(f)
    return out


@st.composite
def charts(draw, o=None, datamodel='lua'):
    o = o or GenOpts()
    count = [0]
    nodes = []

    def new_state(kind):
        s = State(kind, id="s%d" % count[0])
        count[0] += 1
        nodes.append(s)
        return s

    def gen_children(parent, depth, n, region):
        kids = []
        for i in range(n):
            if count[0] >= o.max_states:
                break
            opts = [('atomic', 5)]
            if depth < o.max_depth:
                opts.append(('compound', 3))
                if o.parallel and not region:
                    opts.append(('parallel', 2))
            if o.finals and not region:
                opts.append(('final', 1))
            k = weighted(draw, opts)
            if k == 'atomic':
                s = new_state('state')
            elif k == 'final':
                s = new_state('final')
            elif k == 'compound':
                s = new_state('state')
                s.children = gen_children(s, depth + 1, draw(st.integers(1, 3)), False)
            else:
                s = new_state('parallel')
                s.children = gen_children(s, depth + 1, draw(st.integers(2, 3)), True)
                if len(s.children) < 1:
                    s.kind = 'state'
            kids.append(s)
        return kids

    root = State('scxml')
    root.children = gen_children(root, 1, draw(st.integers(1, 3)), False)
    if not root.children:
        root.children = [new_state('state')]
    # a chart whose only top-level children are finals is legal but uninteresting: make the first a state
    if all(c.kind == 'final' for c in root.children):
        root.children[0].kind = 'state'
    # parents
    tmp = Chart(root, datamodel)
    proper = [s for s in tmp.states if s.kind != 'scxml']
    ids = [s.id for s in proper]

    nvars = draw(st.integers(0, 2)) if (o.data and datamodel != 'null') else 0
    vars_ = ['x', 'y'][:nvars]
    variables = [(v, draw(st.integers(0, 3))) for v in vars_]
    binding = 'late' if (o.late_binding and draw(st.integers(0, 3)) == 3) else 'early'

    # history pseudo states
    hist_ids = []
    hist_parents, deep_hist_parents = set(), set()
    excluded = [0]
    if o.history:
        for s in list(proper):
            if (s.is_compound() or s.kind == 'parallel') and weighted(draw, [(0, 5 - o.history_weight), (1, o.history_weight)]) == 1:
                h = State('history', id="h%d" % len(hist_ids))
                h.hist_type = draw(st.sampled_from(['shallow', 'deep']))
                if not o.nested_history:
                    # known finding F-C01-2 (one shared history set): excluded by construction -- no history below a
                    # deep history's parent, no deep history above another history
                    if any(a in deep_hist_parents for a in s.ancestors()):
                        excluded[0] += 1
                        continue
                hist_parents.add(s)
                if h.hist_type == 'deep':
                    deep_hist_parents.add(s)
                pc = s.proper_children()
                if s.kind == 'parallel':
                    # default must name a legal configuration: every region (or descendants thereof)
                    if h.hist_type == 'shallow':
                        tg = [c.id for c in pc]
                    else:
                        tg = [c.id for c in pc]
                else:
                    if h.hist_type == 'shallow':
                        tg = [draw(st.sampled_from(pc)).id]
                    else:
                        cands = [d for d in s.descendants() if d.kind in ('state', 'parallel', 'final')]
                        tg = [draw(st.sampled_from(cands)).id]
                ht = Trans(targets=tg)
                if o.content and draw(st.integers(0, 2)) == 2:
                    ht.content = [Log("H" + h.id, ('c', 7))]
                    if o.faults and draw(st.booleans()):
                        # failing elements also inside the content of history default transitions
                        ht.content = draw(exec_blocks(o, vars_, ids, "H" + h.id + "_", 0, 2)) or ht.content
                h.transitions = [ht]
                if draw(st.booleans()):
                    s.children.insert(0, h)
                else:
                    s.children.append(h)
                hist_ids.append(h.id)
                if o.two_histories and draw(st.integers(0, 3)) == 3 and not (not o.nested_history and h.hist_type == 'shallow' and
                                                                           any(d.is_compound() or d.kind == 'parallel' for d in s.descendants()) and False):
                    # the other kind of history in the same state (legal; both are recorded at the same moment)
                    h2 = State('history', id="h%d" % len(hist_ids))
                    h2.hist_type = 'deep' if h.hist_type == 'shallow' else 'shallow'
                    if s.kind == 'parallel':
                        tg2 = [c.id for c in pc]
                    elif h2.hist_type == 'shallow':
                        tg2 = [draw(st.sampled_from(pc)).id]
                    else:
                        tg2 = [draw(st.sampled_from([d for d in s.descendants() if d.kind in ('state', 'parallel', 'final')])).id]
                    h2.transitions = [Trans(targets=tg2)]
                    if h2.hist_type == 'deep':
                        deep_hist_parents.add(s)
                    if draw(st.booleans()):
                        s.children.insert(0, h2)
                    else:
                        s.children.append(h2)
                    hist_ids.append(h2.id)

    # initial for compounds (incl. root: attribute only)
    for s in [root] + proper:
        if not s.is_compound():
            continue
        pc = s.proper_children()
        styles = [('first', 4), ('attr', 3)]
        if o.initial_elem and s.kind != 'scxml':
            styles.append(('elem', 2))
        if o.deep_initial:
            styles.append(('deep', o.deep_initial_weight))
        style = weighted(draw, styles)
        if style == 'first':
            continue
        if style == 'attr':
            s.initial_attr = [draw(st.sampled_from(pc)).id]
            continue
        desc = [d for d in s.descendants() if d.kind in ('state', 'parallel', 'final')]
        if style == 'deep':
            t0 = draw(st.sampled_from(desc))
            tg = [t0.id]
            if o.multi_target:
                others = [d for d in desc if lca_is_parallel(t0, d)]
                if o.loose and draw(st.integers(0, 3)) == 3:
                    tg.append(draw(st.sampled_from(desc)).id)
                elif others and draw(st.booleans()):
                    tg.append(draw(st.sampled_from(others)).id)
            s.initial_attr = tg
            continue
        if style == 'elem':
            t0 = draw(st.sampled_from(desc if o.deep_initial else pc))
            it = Trans(targets=[t0.id])
            if o.content and draw(st.booleans()):
                it.content = [Log("I" + s.id, ('c', 9))]
                if o.faults and draw(st.booleans()):
                    # ... and of <initial> transitions
                    it.content = draw(exec_blocks(o, vars_, ids, "I" + s.id + "_", 0, 2)) or it.content
            ini = State('initial', id="i_" + s.id)
            ini.transitions = [it]
            if draw(st.booleans()):
                s.children.insert(0, ini)
            else:
                s.children.append(ini)

    # transitions
    target_pool = list(proper)
    all_target_ids = ids + (hist_ids * o.hist_target_weight if o.hist_targets else [])
    for s in proper:
        if s.kind == 'final':
            continue
        n = weighted(draw, [(1, 4), (0, 3), (2, 2), (3, 1)])
        for i in range(n):
            t = Trans()
            ev_opts = [('desc', 8)]
            if o.eventless:
                ev_opts.append(('none', o.eventless_weight))
            if o.done_events:
                ev_opts.append(('done', 1))
            ek = weighted(draw, ev_opts)
            if ek == 'desc':
                t.events = list(draw(st.sampled_from(o.descriptors or DESCRIPTORS)))
            elif ek == 'done':
                comp = [x.id for x in proper if x.is_compound() or x.kind == 'parallel']
                t.events = ['done.state.' + draw(st.sampled_from(comp))] if comp else ['a']
            else:
                t.events = []
            if o.conds and weighted(draw, [(0, 5), (1, 3)]) == 1:
                t.cond = draw(bool_exprs(vars_, ids, 0, True, o.in_conds))
            elif ek == 'none':
                # an unconditional eventless transition easily loops; guard most of them
                if draw(st.integers(0, 3)) != 0:
                    t.cond = draw(bool_exprs(vars_, ids, 0, True, o.in_conds))
            ntg = weighted(draw, [(1, 6), (2, 2 if o.multi_target else 0),
                                  (0, o.targetless_weight if o.targetless and not (o.eventless_targeted and ek == 'none') else 0)])
            if ntg >= 1:
                first = draw(st.sampled_from(all_target_ids))
                t.targets = [first]
                if ntg == 2 and not first.startswith('h'):
                    f = tmp.by_id[first]
                    others = [d.id for d in proper if lca_is_parallel(f, d)]
                    if o.loose and draw(st.booleans()):
                        t.targets.append(draw(st.sampled_from(ids)))
                    elif others:
                        t.targets.append(draw(st.sampled_from(others)))
            if o.internal and t.targets and draw(st.integers(0, 4)) == 4:
                t.internal = True
            if o.content:
                t.content = draw(exec_blocks(o, vars_, ids, "T" + s.id + "_%d" % i, 0, 2))
            s.transitions.append(t)

    # handlers
    if o.content:
        for s in proper:
            if draw(st.integers(0, 2)) == 2:
                nb = weighted(draw, [(1, 3), (2, 1)])
                s.onentry = [draw(exec_blocks(o, vars_, ids, "N" + s.id + "_%d" % b, 0, 2)) for b in range(nb)]
            if draw(st.integers(0, 2)) == 2:
                nb = weighted(draw, [(1, 3), (2, 1)])
                s.onexit = [draw(exec_blocks(o, vars_, ids, "X" + s.id + "_%d" % b, 0, 2)) for b in range(nb)]
    # state-local data (read only by the owning state's own handlers is not enforced: values are only logged by C01 at the end)
    ch = Chart(root, datamodel, binding, variables)
    return ch


def event_histories(max_len=6, names=None):
    return st.lists(st.sampled_from(names or EVENT_NAMES), min_size=0, max_size=max_len)


def conflict_profile():
    """small charts in which most transitions react to the same event and many are targetless: selection, pre-emption and
    the conflict tables of the transpilers are exercised densely"""
    return GenOpts(max_states=7, max_depth=3, data=False, conds=False, descriptors=[['a'], ['a'], ['a'], ['b']], eventless=False,
                   done_events=False, late_binding=False, targetless_weight=4, history_weight=1)


def dataflow_profile():
    """small charts whose behaviour hinges on data: many <assign>s (also in targetless transitions) and eventless
    transitions guarded by comparisons over the same one or two variables"""
    return GenOpts(max_states=5, max_depth=2, history=False, send=False, done_events=False, late_binding=False, targetless_weight=5,
                   in_conds=False, descriptors=[['a'], ['b'], ['a']], assign_weight=12, eventless_weight=6, initial_elem=False,
                   deep_initial=False, faults=False, local_data=False, eventless_targeted=True)


@st.composite
def dataflow_charts(draw, datamodel='lua', events=('a', 'b'), internal='c'):
    """charts built around data-dependent eventless transitions: event transitions (most of them targetless) assign small
    constants / increments to x, eventless transitions guarded by a comparison over x lead elsewhere and usually move x on,
    an internal event c is raised now and then. 2-4 states, flat, in a compound or in a parallel."""
    n = draw(st.integers(2, 4))
    states = [State('state', id="s%d" % i) for i in range(n)]
    ids = [s.id for s in states]
    lbl = [0]

    def content(kind):
        out = []
        k = weighted(draw, [('set', 4), ('inc', 3), ('none', 1 if kind == 'event' else 3)])
        if k == 'set':
            out.append(Assign('x', ('c', draw(st.integers(0, 3)))))
        elif k == 'inc':
            out.append(Assign('x', ('+', ('v', 'x'), ('c', 1))))
        if draw(st.integers(0, 3)) == 0:
            out.append(Raise(internal))
        if draw(st.integers(0, 2)) == 0:
            lbl[0] += 1
            out.append(Log("D%d" % lbl[0], ('v', 'x')))
        return out
    for s in states:
        for ev in events:
            if draw(st.integers(0, 3)) == 0:
                continue
            t = Trans(events=[ev])
            if draw(st.integers(0, 4)) >= 2:
                t.content = content('event')           # targetless
            else:
                t.targets = [draw(st.sampled_from(ids))]
                t.content = content('event') if draw(st.booleans()) else []
            s.transitions.append(t)
        if draw(st.integers(0, 3)) != 0:
            op = draw(st.sampled_from(['==', '>', '==', '>=']))
            t = Trans(cond=(op, ('v', 'x'), ('c', draw(st.integers(1, 4)))), targets=[draw(st.sampled_from([i for i in ids if i != s.id]))])
            t.content = content('eventless')
            pos = draw(st.integers(0, len(s.transitions)))
            s.transitions.insert(pos, t)
        if draw(st.integers(0, 2)) == 0:
            s.transitions.append(Trans(events=[internal], targets=[draw(st.sampled_from(ids))]))
    shape = draw(st.sampled_from(['flat', 'flat', 'compound', 'parallel']))
    root = State('scxml')
    if shape == 'flat' or n < 3:
        root.children = states
    elif shape == 'compound':
        outer = State('state', id="o0", children=states[:-1])
        if draw(st.booleans()):
            outer.transitions.append(Trans(events=[draw(st.sampled_from(list(events)))], content=content('event')))
        root.children = [outer, states[-1]]
    else:
        r1 = State('state', id="r1", children=states[:n // 2])
        r2 = State('state', id="r2", children=states[n // 2:])
        par = State('parallel', id="o0", children=[r1, r2])
        # targets must stay inside the own region (anything else leaves and re-enters the parallel state, which is fine too)
        root.children = [par]
    return Chart(root, datamodel, 'early', [('x', draw(st.integers(0, 1)))])


def completion_profile():
    """nested charts in which default completion is the subject: deep (also multi-target) initial attributes on most compound
    states, <initial> elements, no data, little content; events a/b move between the compounds so that they are re-entered"""
    return GenOpts(max_states=8, max_depth=4, data=False, conds=False, descriptors=[['a'], ['b'], ['a']], eventless=False, done_events=False,
                   late_binding=False, history_weight=1, deep_initial_weight=12, send=False, faults=False)


@st.composite
def parallel_region_charts(draw, datamodel='null'):
    """a parallel state with 2-4 compound regions (two children each) next to an outside state; every region state gets 0-2
    transitions on a / b / both, targetless, to its sibling, to the outside state or into another region: pre-emption between
    orthogonal regions, transitions leaving the parallel state and the engines' lazily built conflict caches are exercised"""
    nreg = draw(st.integers(2, 4))
    regions, leaves = [], []
    for r in range(nreg):
        kids = [State('state', id="r%d%s" % (r, c)) for c in ("ab" if draw(st.integers(0, 2)) else "a")]
        regions.append(State('state', id="r%d" % r, children=kids))
        leaves += kids
    par = State('parallel', id="p", children=regions)
    out = State('state', id="out", transitions=[Trans(events=[draw(st.sampled_from(['a', 'b', 'back']))], targets=["p"])])
    ids = [l.id for l in leaves]
    for holder in leaves + regions + [par]:
        for _ in range(draw(st.sampled_from([0, 1, 1, 2]) if holder in leaves else st.sampled_from([0, 0, 1]))):
            t = Trans(events=list(draw(st.sampled_from([['a'], ['b'], ['a', 'b'], ['*'], ['a'], ['b']]))))
            k = draw(st.sampled_from(['none', 'none', 'sibling', 'out', 'other', 'sibling', 'self']))
            if k == 'sibling' and holder in leaves and (holder.id[:-1] + 'b') in ids:
                t.targets = [holder.id[:-1] + ('b' if holder.id.endswith('a') else 'a')]
            elif k in ('self', 'sibling') and holder is not par:
                t.targets = [holder.id]
                if holder in regions and draw(st.booleans()):
                    t.targets = [holder.children[-1].id]
                    t.internal = draw(st.booleans())
            elif k == 'out':
                t.targets = ["out"]
            elif k == 'other':
                t.targets = [draw(st.sampled_from(ids))]
            holder.transitions.append(t)
    if draw(st.booleans()):
        root = State('scxml', children=[par, out])
    else:
        root = State('scxml', children=[out, par], initial_attr=["p"] if draw(st.booleans()) else None)
    return Chart(root, datamodel, 'early', [])


@st.composite
def delayed_charts(draw, datamodel='null'):
    """2-4 flat states whose onentry blocks send a / b to the own session - immediately or after 3-25 ms, to the external queue
    or to #_internal - and whose transitions react to them (target, targetless, raise): the macrostep / stable-notice discipline
    when events turn up while the session is idle. Not comparable with the (untimed) reference model; used with stream rules."""
    n = draw(st.integers(2, 4))
    states = [State('state', id="s%d" % i) for i in range(n)]
    ids = [s.id for s in states]
    budget = [draw(st.integers(2, 6))]   # total number of sends that may be executed is bounded by construction below
    for s in states:
        blk = []
        for _ in range(draw(st.sampled_from([0, 1, 1, 2]))):
            blk.append(Send(draw(st.sampled_from(['a', 'b'])), internal=draw(st.booleans()), delay_ms=draw(st.sampled_from([0, 3, 8, 15, 25]))))
        if blk:
            s.onentry = [blk]
        for ev in ('a', 'b'):
            k = draw(st.sampled_from(['none', 'next', 'targetless', 'raise', 'next']))
            if k == 'none':
                continue
            t = Trans(events=[ev])
            if k == 'next':
                # only forward targets: every state is entered at most once, so the run is finite
                later = [i for i in ids if i > s.id]
                if not later:
                    continue
                t.targets = [draw(st.sampled_from(later))]
            elif k == 'raise':
                t.content = [Raise('c')]
            s.transitions.append(t)
        if draw(st.integers(0, 3)) == 0:
            s.transitions.append(Trans(events=['c'], content=[Log("C" + s.id, ('c', 1))] if datamodel != 'null' else []))
    return Chart(State('scxml', children=states), datamodel, 'early', [])


@st.composite
def parallel_final_charts(draw, datamodel='lua'):
    """completion of parallel states: 2-3 regions, each a compound state with one or two working states and a <final>, some
    regions (and sometimes the parallel state itself) own a shallow or deep <history>; events a / b / c move the regions
    into their finals (in any order, some only after a detour outside through the history); done.state.<region> and
    done.state.<parallel> are observed by transitions with a log"""
    nreg = draw(st.integers(2, 3))
    regions = []
    hist_n = [0]

    def hist(parent_children_ids, deep_ok=True):
        h = State('history', id="h%d" % hist_n[0])
        hist_n[0] += 1
        h.hist_type = draw(st.sampled_from(['shallow', 'deep'] if deep_ok else ['shallow']))
        h.transitions = [Trans(targets=[parent_children_ids[0]])]
        h.transitions[0].kind = 'history'
        return h
    evs = ['a', 'b', 'c']
    for r in range(nreg):
        w1 = State('state', id="r%dw" % r)
        kids = [w1]
        fin = State('final', id="r%df" % r)
        if draw(st.booleans()):
            w2 = State('state', id="r%dv" % r)
            w1.transitions.append(Trans(events=[draw(st.sampled_from(evs))], targets=[w2.id]))
            w2.transitions.append(Trans(events=[draw(st.sampled_from(evs))], targets=[fin.id]))
            kids.append(w2)
        else:
            w1.transitions.append(Trans(events=[draw(st.sampled_from(evs))], targets=[fin.id]))
        kids.append(fin)
        reg = State('state', id="r%d" % r, children=kids)
        if draw(st.integers(0, 2)) == 0:
            reg.children.insert(draw(st.integers(0, 1)) * len(reg.children), hist([k.id for k in kids], deep_ok=False))
        regions.append(reg)
    par = State('parallel', id="p", children=regions)
    phist = None
    if draw(st.integers(0, 3)) == 0:
        # a deep history above other histories is the recorded known-finding class (F-C01-2 / F-C02-1 / F-C05-1): excluded by
        # construction here as in charts()
        phist = hist([regions[0].id], deep_ok=not any(h.kind == 'history' for reg in regions for h in reg.children))
        phist.transitions[0].targets = [r.id for r in regions][:1]
        par.children.append(phist)
    # leaving and coming back through a history (or plainly)
    out = State('state', id="out")
    back_targets = ["p"] + [h.id for reg in regions for h in reg.children if h.kind == 'history'] + ([phist.id] if phist else [])
    out.transitions.append(Trans(events=['back'], targets=[draw(st.sampled_from(back_targets))]))
    par.transitions.append(Trans(events=['leave'], targets=['out']))
    done = State('state', id="done")
    log_n = [0]

    def lg(tag):
        log_n[0] += 1
        return [Log("%s%d" % (tag, log_n[0]), ('c', log_n[0]))] if datamodel != 'null' else []
    par.transitions.append(Trans(events=['done.state.p'], targets=['done'], content=lg("DP")))
    for reg in regions:
        if draw(st.booleans()):
            par.transitions.append(Trans(events=['done.state.' + reg.id], content=lg("DR")))
    root = State('scxml', children=[par, out, done] if draw(st.booleans()) else [out, par, done], initial_attr=["p"])
    return Chart(root, datamodel, 'early', [])


@st.composite
def descriptor_charts(draw, datamodel='promela'):
    """event descriptor resolution end to end: a parent state with 1-3 transitions whose descriptor lists come from a rich pool
    (exact names, '.*' and '.' suffixes, prefixes, near misses, lists, '*'), each leading to a state of its own; the child
    state raises 1-2 event names on entry. The handlers precede the raising content in document order (static resolvers see
    the descriptor first)."""
    descs = [['a'], ['a.*'], ['a.'], ['a.b'], ['a.b.*'], ['ab'], ['ab.*'], ['b', 'a.*'], ['a.b', 'c'], ['c.*'], ['*'], ['b.'], ['a.b.c'], ['b']]
    names = ['a', 'a.b', 'a.b.c', 'ab', 'b', 'c', 'a.c', 'ab.c', 'b.a']
    nt = draw(st.integers(1, 3))
    targets = [State('state', id="f%d" % i) for i in range(nt)]
    child = State('state', id="s0")
    child.onentry = [[Raise(draw(st.sampled_from(names))) for _ in range(draw(st.integers(1, 2)))]]
    parent = State('state', id="p", children=[child])
    for i in range(nt):
        parent.transitions.append(Trans(events=list(draw(st.sampled_from(descs))), targets=[targets[i].id]))
    for t in targets:
        if draw(st.booleans()):
            t.transitions.append(Trans(events=list(draw(st.sampled_from(descs))), targets=["p"]))
    root = State('scxml', children=[parent] + targets)
    return Chart(root, datamodel, 'early', [])


def history_profile():
    """charts that concentrate on history semantics: many history states and transitions into them, two event names,
    no executable content; meant to be combined with event_histories(12, ['a', 'b'])"""
    return GenOpts(max_states=8, max_depth=3, content=False, data=False, conds=False, history_weight=4, hist_target_weight=3,
                   descriptors=[['a'], ['b'], ['a'], ['b'], ['*']], eventless=False, done_events=False, finals=False,
                   late_binding=False, initial_elem=False)


# ---------------------------------------------------------------------------------------------------------
# bounded exhaustive enumeration of small charts (C01 / C03): every ordered state tree with <= N proper states,
# every kind assignment (state / parallel / final), every set of <= T transitions from the menu
# {source} x {targetless, any single target, internal variant for compound sources}, all on event 'a'.
def _enum_shapes(n):
    if n == 0:
        yield []
        return
    for k in range(1, n + 1):
        for first in _enum_shapes(k - 1):
            for rest in _enum_shapes(n - k):
                yield [first] + rest


def _kinds(shape, in_parallel, top):
    """yield forests [(kind, kids)]"""
    if not shape:
        yield []
        return
    first, rest = shape[0], shape[1:]
    if first:
        ks = ['state'] if in_parallel else ['state', 'parallel']
    else:
        ks = ['state'] if in_parallel else ['state', 'final']
    for kind in ks:
        for kids in _kinds(first, kind == 'parallel', False):
            if kind == 'parallel' and len(kids) < 1:
                continue
            for others in _kinds(rest, in_parallel, top):
                yield [(kind, kids)] + others


def _realise(forest):
    cnt = [0]

    def mk(node):
        kind, kids = node
        s = State(kind, id="s%d" % cnt[0])
        cnt[0] += 1
        s.children = [mk(k) for k in kids]
        return s
    return [mk(x) for x in forest]


def enum_small_charts(nstates, ntrans, shard=0, nshards=1, only_parallel_above=None, datamodel='null'):
    """yields (chart, label). only_parallel_above=k: trees with more than k states are only enumerated when they
    contain a parallel state (where selection / conflict logic is non-trivial)."""
    import itertools
    idx = 0
    for n in range(1, nstates + 1):
        for shape in _enum_shapes(n):
            for forest in _kinds(shape, False, True):
                if forest[0][0] == 'final':
                    continue
                flat = []

                def has_par(f):
                    return any(k == 'parallel' or has_par(c) for k, c in f)
                if only_parallel_above is not None and n > only_parallel_above and not has_par(forest):
                    continue
                probe = Chart(State('scxml', children=_realise(forest)), datamodel)
                proper = [s for s in probe.states if s.kind != 'scxml']
                menu = []
                for s in proper:
                    if s.kind == 'final':
                        continue
                    menu.append((s.id, None, False))
                    for t in proper:
                        menu.append((s.id, t.id, False))
                        if s.is_compound() and t.is_descendant_of(s):
                            menu.append((s.id, t.id, True))
                for k in range(0, ntrans + 1):
                    for combo in itertools.combinations(menu, k):
                        idx += 1
                        if idx % nshards != shard:
                            continue
                        root = State('scxml', children=_realise(forest))
                        ch = Chart(root, datamodel)
                        for (src, tgt, internal) in combo:
                            ch.by_id[src].transitions.append(Trans(events=['a'], targets=[tgt] if tgt else [], internal=internal))
                        ch.finish()
                        yield ch
