"""C10 - the interpreter life-cycle is well defined and always terminates."""
import sys, os, json
sys.path.insert(0, os.path.join(os.path.dirname(os.path.abspath(__file__)), "..", "pylib"))
sys.path.insert(0, os.path.dirname(os.path.abspath(__file__)))
import harness, gen, trace, model
from harness import Failure
from chart import *
from chartcase import *
from worker import WorkerCrash, WorkerHang
from hypothesis import strategies as st

PROPERTY = "C10"
LEVEL = "exploration"
RULE = ("cases = (chart with an onexit marker in every state, operation sequence) with operations step(0), blocking step on a "
        "second thread + join, receive / cancel from the calling or from another thread, reset, getState, isInState, destroy + "
        "re-create, applied from the pristine state on (i.e. also before the first step). Oracle = life-cycle automaton from "
        "InterpreterState.h / Interpreter.h / test-lifecycle.cpp: getState is INSTANTIATED before the first step and after "
        "reset, the first step yields INITIALIZED, FINISHED is absorbing, CANCELLED occurs only after cancel(), at most once, "
        "and is followed by FINISHED; after cancel() on a chart that stabilises the run reaches FINISHED within a step budget; "
        "in the completion bracket every active state's onexit marker appears exactly once, innermost first; a blocked step() "
        "is released by cancel() from another thread; no operation crashes; destruction returns within 2 s. Metamorphic: the "
        "trace of any continuation after reset() equals the trace of a fresh interpreter for that continuation (random sequences, and "
        "a dedicated stream on history-dense charts: events, reset, events - remembered history must be forgotten). Forced "
        "teardown schedules: the timer thread is parked between its run-flag test and event_base_loop() while the "
        "interpreter is destroyed (create/destroy churn); the timer thread is parked in the middle of delivering a delayed event (before "
        "/ after taking the event from the queue's bookkeeping, on entry of InterpreterImpl::eventReady) while the interpreter is destroyed; delayed sends whose delivery fails when the timer fires (non-existing invoke id / "
        "parent / session) followed by reset() or destruction. non-trivial = the sequence contains cancel/reset/destroy before the "
        "natural end and an operation from a second thread; distinct = hash(document, ops)")
ASSUMPTIONS = ["'always terminates' is checked as bounded liveness: a watchdog of 20 s per worker call (normal duration: milliseconds)",
               "charts that never stabilise (model budget) are not used for the cancel-reaches-FINISHED clause"]
BUILDS = (("san", ["worker"]),)


def budget(tier):
    if tier == "thorough":
        return {"seqs": 12000, "churn": 400, "min_nontrivial": 2500}
    return {"seqs": 4000, "churn": 60, "min_nontrivial": 250}


def lifecycle_chart(draw_chart):
    ch = draw_chart
    if getattr(ch, '_markers_added', False):
        return ch
    ch._markers_added = True
    for s in ch.states:
        if s.is_proper() and s.kind != 'scxml':
            s.onexit = [[Log("EXITMARK" + s.id, ('c', 1))]] + s.onexit
    ch.finish()
    return ch


ops_s = st.lists(st.one_of(
    st.just("step"), st.just("step"), st.just("step"), st.just("step"),
    st.sampled_from(["recv a", "recv b", "recv c", "recvt a", "recvt b"]),
    st.sampled_from(["cancel", "cancelt"]),
    st.just("reset"),
    st.just("state"),
    st.sampled_from(["isin s0", "isin s1"]),
    st.just("BLOCK"),      # expands to bstep / sleep / cancelt|recvt / join
    st.just("destroy"),
), min_size=1, max_size=24)


def expand(ops, data_choices):
    out = []
    i = 0
    for o in ops:
        if o == "BLOCK":
            wake = data_choices[i % len(data_choices)]
            i += 1
            out += ["bstep", "sleep 3", wake, "join"]
        elif o == "destroy":
            out += ["destroy", "new"]
        else:
            out.append(o)
    return out


def call(ctx, *args, timeout=25):
    try:
        return ctx.worker().call(*args, timeout=timeout)
    except WorkerCrash as e:
        if e.returncode in (42, 43, 44):
            raise Failure("blocked-step-not-released", {"rc": e.returncode, "signature": "blocked-step"})
        raise Failure("crash", {"stderr": crash_excerpt(e.stderr), "signature": crash_signature(e.stderr)})
    except WorkerHang:
        raise Failure("hang", {"signature": "hang"})


def check_automaton(tr, ch, stabilises):
    """tr: raw lifecycle trace. raises Failure"""
    phase = 'fresh'      # fresh -> running -> cancelled -> finished
    cancelled_requested = False
    seen_cancelled = False
    steps_since_cancel = 0
    last_cfg = None
    in_comp = False
    comp_logs = []
    cfg_at_comp = None
    expect_state = 'INSTANTIATED'

    def bad(msg, i):
        raise Failure("life-cycle-violation", {"message": msg, "window": tr[max(0, i - 8):i + 3], "signature": msg.split(':')[0]})
    for i, e in enumerate(tr):
        k = e[0]
        if k == 'op':
            op = e[1].split(' ')[0]
            if op in ('cancel', 'cancelt'):
                cancelled_requested = True
                steps_since_cancel = 0
            elif op == 'reset':
                phase = 'fresh'
                cancelled_requested = False
                seen_cancelled = False
                expect_state = 'INSTANTIATED'
                last_cfg = None
        elif k == 'destroyed':
            if int(e[1]) > 2000:
                bad("destruction took %s ms" % e[1], i)
            phase = 'fresh'
            cancelled_requested = False
            seen_cancelled = False
            expect_state = 'INSTANTIATED'
            last_cfg = None
        elif k == 'state':
            if expect_state is not None and e[1] != expect_state:
                bad("getState: expected %s, got %s" % (expect_state, e[1]), i)
        elif k in ('st', 'joined'):
            s = e[1]
            if k == 'joined' and s == 'exception':
                bad("blocked step threw", i)
            if phase == 'fresh':
                if s != 'INITIALIZED':
                    bad("first step(): expected INITIALIZED, got %s" % s, i)
                phase = 'running'
            elif phase == 'finished':
                if s != 'FINISHED':
                    bad("FINISHED is not absorbing: got %s" % s, i)
            elif phase == 'cancelled':
                if s != 'FINISHED':
                    bad("step after CANCELLED: expected FINISHED, got %s" % s, i)
                phase = 'finished'
            else:
                if s == 'CANCELLED':
                    if not cancelled_requested:
                        bad("CANCELLED without cancel()", i)
                    if seen_cancelled:
                        bad("CANCELLED twice", i)
                    seen_cancelled = True
                    phase = 'cancelled'
                elif s == 'FINISHED':
                    phase = 'finished'
                elif s in ('MICROSTEPPED', 'MACROSTEPPED', 'IDLE'):
                    if cancelled_requested:
                        steps_since_cancel += 1
                        if stabilises and steps_since_cancel > 120:
                            bad("cancel(): not FINISHED after %d further steps" % steps_since_cancel, i)
                else:
                    bad("unexpected step result: %s" % s, i)
            expect_state = s
        elif k == 'cfg':
            last_cfg = e[1]
        elif k == 'bcomp':
            in_comp = True
            comp_logs = []
            cfg_at_comp = last_cfg
        elif k == 'log' and in_comp:
            comp_logs.append(e[1].split(':')[0])
        elif k == 'acomp':
            in_comp = False
            if cfg_at_comp is not None:
                want = ["EXITMARK" + s for s in reversed(cfg_at_comp) if s != '#root']
                got = [l for l in comp_logs if l.startswith('EXITMARK')]
                if got != want:
                    bad("completion: onexit markers %s, expected %s" % (got, want), i)
    return phase


def check_sequence(ctx, ch, ops, wakes, engine):
    ch = lifecycle_chart(ch)
    xml = ch.to_xml('lua')
    full = expand(ops, wakes)
    m, exp = run_model(ch, ['a', 'b', 'c', 'a', 'b'])
    stabilises = not (exp and exp[-1] == ('budget',))
    r = call(ctx, "lifecycle", xml, engine, "\n".join(full))
    if r.get("exception"):
        raise Failure("exception", {"exception": r["exception"][:300], "ops": full, "signature": r["exception"][:50]})
    tr = r["trace"]
    check_automaton(tr, ch, stabilises)
    labels = set()
    if any(o.startswith(('cancel',)) for o in full):
        labels.add('cancel')
    if 'reset' in full:
        labels.add('reset')
    if 'destroy' in full:
        labels.add('destroy')
    if any(o in ('recvt a', 'recvt b', 'cancelt', 'bstep') for o in full):
        labels.add('second-thread')
    if full and full[0].split(' ')[0] in ('recv', 'recvt', 'cancel', 'cancelt', 'reset', 'state', 'isin'):
        labels.add('op-before-first-step')
    if 'bstep' in full:
        labels.add('blocked-step')
    # metamorphic reset check: continuation after the LAST reset vs a fresh interpreter
    if 'reset' in full and stabilises:
        idx = len(full) - 1 - full[::-1].index('reset')
        suffix = [o for o in full[idx + 1:]]
        cut = suffix.index('destroy') if 'destroy' in suffix else len(suffix)
        suffix = suffix[:cut]
        if suffix and 'bstep' not in suffix and 'bstep' not in full[:idx]:
            # (sequences with a step() blocked on a second thread are timing dependent: no trace equality is demanded there)
            r2 = call(ctx, "lifecycle", xml, engine, "\n".join(suffix))
            # locate the continuation in the first trace
            pos = max(i for i, e in enumerate(tr) if e[0] == 'op' and e[1] == 'reset')
            a = [e for e in tr[pos + 1:] if e[0] not in ('destroyed',)]
            end = next((i for i, e in enumerate(a) if e[0] == 'op' and e[1] == 'destroy'), len(a))
            a = a[:end]
            b = [e for e in r2["trace"] if e[0] not in ('destroyed',)]

            def proj(t):
                return [x[:4] if x[0] == 'ev' else x for x in t]
            pa, pb = proj(a), proj(b)
            if pa != pb:
                i = next((k for k in range(min(len(pa), len(pb))) if pa[k] != pb[k]), min(len(pa), len(pb)))
                raise Failure("reset-not-like-fresh", {"ops": full, "continuation": suffix,
                                                       "window": {"index": i, "after_reset": pa[max(0, i - 4):i + 5], "fresh": pb[max(0, i - 4):i + 5]},
                                                       "signature": ["reset", str(pa[i])[:30] if i < len(pa) else None]})
            labels.add('reset-compared')
    nontrivial = bool(labels & {'cancel', 'reset', 'destroy'}) and 'second-thread' in labels
    ctx.count(harness.h64(xml, "|".join(full), engine), nontrivial, labels | {'engine-' + engine},
              sample=lambda: {"document": xml[:1500], "ops": full, "step_results": [e[1] for e in tr if e[0] == 'st'][:30]})


CHURN_DOC = '''<scxml xmlns="http://www.w3.org/2005/07/scxml" version="1.0" datamodel="null" name="c">
<state id="s0"><onentry><send event="t1" delay="50ms" id="x1"/><send event="t2" delay="80ms" id="x2"/><cancel sendid="x1"/></onentry>
<transition event="t2" target="s1"/></state><state id="s1"/></scxml>'''


def check_churn(ctx, n, steps, mode):
    opts = ""
    if mode == 'park':
        opts = "park=dq.run.beforeloop parkms=15"
    elif mode == 'sched':
        opts = "sched=1,2,0,3"
    r = call(ctx, "churn", CHURN_DOC, str(n), str(steps), opts.replace(",", " ") if False else opts, timeout=60)
    if r.get("exception"):
        raise Failure("exception", {"exception": r["exception"], "signature": "churn-exception"})
    if r["worst_destroy_us"] > 2000000:
        raise Failure("slow-destruction", {"worst_us": r["worst_destroy_us"], "mode": mode, "signature": "slow-destroy"})
    ctx.count(harness.h64("churn", str(n), str(steps), mode), True, ['churn-' + mode],
              sample={"interpreters": n, "steps": steps, "mode": mode, "worst_destroy_us": r["worst_destroy_us"], "parked": r.get("park_count")})


def check_reset_history(ctx, ch, before, after, engine):
    """run events, reset(), run events: must equal a fresh interpreter running the second list (history, data, queues forgotten)"""
    ops = []
    for e in before:
        ops += ["recv " + e, "drain"]
    ops.append("reset")
    for e in after:
        ops += ["recv " + e, "drain"]
    check_sequence(ctx, ch, ["drain"] + ops, ["cancelt"], engine)


DELIVER_DOC = ('<scxml xmlns="http://www.w3.org/2005/07/scxml" version="1.0" datamodel="null" name="d"><state id="s0" vid="s0"><onentry>'
               '%s</onentry><transition event="t" vid="tt"/></state></scxml>')


def check_destroy_while_delivering(ctx, delays, point, engine):
    """the interpreter is destroyed while its timer thread is in the middle of delivering a delayed event"""
    sends = "".join('<send vid="send%d" event="t.%d" delay="%dms"/>' % (i, i, d) for i, d in enumerate(delays))
    r = call(ctx, "timed", DELIVER_DOC % sends, engine, "", "until=%d park=%s parkms=60 arm=1 destroyparked" % (max(delays) + 300, point), timeout=30)
    if r.get("exception"):
        raise Failure("exception", {"exception": r["exception"], "signature": "destroy-exception"})
    hit = r.get("park_count", 0) >= 1
    for e in r["trace"]:
        if e[0] == 'destroyed' and int(e[1]) > 2000:
            raise Failure("slow-destruction", {"ms": e[1], "signature": "slow-destroy"})
    ctx.count(harness.h64("destroy-delivering", json.dumps([delays, point, engine])), hit, ['destroy-while-delivering' if hit else 'destroy-window-missed'],
              sample={"delays_ms": delays, "parked_at": point, "engine": engine})


UNDELIVERABLE_DOC = ('<scxml xmlns="http://www.w3.org/2005/07/scxml" version="1.0" datamodel="null" name="u"><state id="s0" vid="s0"><onentry>%s</onentry>'
                     '<transition event="error" vid="te"/><transition event="t" vid="tt"/></state></scxml>')


def check_teardown_after_failed_delivery(ctx, sends, how, engine):
    """delayed sends whose delivery fails when the timer fires (the target was accepted at send time but does not exist);
    afterwards reset() / destruction must still return"""
    body = "".join('<send vid="u%d" event="t.%d" delay="%dms"%s/>' % (i, i, d, (' target="%s"' % tg) if tg else '') for i, (d, tg) in enumerate(sends))
    doc = UNDELIVERABLE_DOC % body
    wait = max(d for d, _ in sends) + 40
    ops = ["drain", "sleep %d" % wait, "drain"]
    if how == 'reset':
        ops += ["reset", "drain", "sleep %d" % wait, "drain", "reset", "step"]
    ops += ["destroy"]
    r = call(ctx, "lifecycle", doc, engine, "\n".join(ops), timeout=25)
    if r.get("exception"):
        raise Failure("exception", {"exception": r["exception"][:300], "signature": "teardown-exception"})
    for e in r["trace"]:
        if e[0] == 'destroyed' and int(e[1]) > 2000:
            raise Failure("slow-destruction", {"ms": e[1], "signature": "slow-destroy"})
    ctx.count(harness.h64("undeliverable", json.dumps([sends, how, engine])), any(tg for _, tg in sends), ['teardown-after-failed-delivery', 'then-' + how],
              sample={"sends": sends, "then": how, "engine": engine})


def shard_main(ctx):
    p = ctx.params
    mod = sys.modules[__name__]
    if ctx.shard == 0:
        ctx.replay_corpus(mod)
    o = gen.GenOpts(max_states=6, history=True, history_weight=3, hist_target_weight=3, data=False, conds=False, late_binding=False, content=True,
                    faults=False, descriptors=[['a'], ['b'], ['c'], ['*']])
    wakes = st.lists(st.sampled_from(["cancelt", "recvt a", "recvt b", "cancelt"]), min_size=1, max_size=4)
    for engine in ("large", "fast"):
        ctx.run_hypothesis([gen.charts(o, 'lua'), ops_s, wakes], lambda ch, ops, wk, engine=engine: check_sequence(ctx, ch, ops, wk, engine),
                           p["seqs"] // (2 * ctx.nshards) + 1,
                           lambda ch, ops, wk, engine=engine: dict(case_repr(ch, []), ops=ops, wakes=wk, engine=engine), name=engine)
    hp = gen.history_profile()
    hp.content = True
    for engine in ("large", "fast"):
        ctx.run_hypothesis([gen.charts(hp, 'lua'), gen.event_histories(8, ['a', 'b']), gen.event_histories(8, ['a', 'b'])],
                           lambda ch, ev1, ev2, engine=engine: check_reset_history(ctx, ch, ev1, ev2, engine), p["seqs"] // (8 * ctx.nshards) + 1,
                           lambda ch, ev1, ev2, engine=engine: dict(case_repr(ch, []), reset_history=[ev1, ev2], engine=engine), name="resethist-" + engine)
    ctx.run_hypothesis([st.lists(st.sampled_from([1, 2, 5, 10, 20]), min_size=1, max_size=4), st.sampled_from(["dq.timer.window", "dq.timer.entry", "ii.eventReady"]),
                        st.sampled_from(["large", "fast"])], lambda d, pt, e: check_destroy_while_delivering(ctx, d, pt, e), p["churn"] // ctx.nshards + 1,
                       lambda d, pt, e: {"destroy_delivering": [d, pt, e]}, name="destroy-delivering")
    bad_targets = st.sampled_from(["#_nosuchinvoke", "#_parent", "#_scxml_00000000-0000-0000-0000-000000000000", None, "#_internal"])
    ctx.run_hypothesis([st.lists(st.tuples(st.sampled_from([1, 5, 15, 30]), bad_targets), min_size=1, max_size=3), st.sampled_from(['destroy', 'reset']),
                        st.sampled_from(["large", "fast"])], lambda sd, how, e: check_teardown_after_failed_delivery(ctx, sd, how, e),
                       p["churn"] // ctx.nshards + 1, lambda sd, how, e: {"undeliverable": [sd, how, e]}, name="undeliverable")
    ctx.run_hypothesis([st.integers(3, 12), st.integers(0, 6), st.sampled_from(['park', 'plain', 'park'])],
                       lambda n, steps, mode: check_churn(ctx, n, steps, mode), p["churn"] // ctx.nshards + 1,
                       lambda n, steps, mode: {"churn": [n, steps, mode]}, name="churn")


def replay(ctx, case):
    try:
        if "undeliverable" in case:
            sd, how, e = case["undeliverable"]
            check_teardown_after_failed_delivery(ctx, [tuple(x) for x in sd], how, e)
        elif "destroy_delivering" in case:
            check_destroy_while_delivering(ctx, *case["destroy_delivering"])
        elif "churn" in case:
            check_churn(ctx, *case["churn"])
        elif "reset_history" in case:
            ch, _ = harness.unpack(case["pickle"])
            check_reset_history(ctx, ch, case["reset_history"][0], case["reset_history"][1], case.get("engine", "large"))
        else:
            ch, _ = harness.unpack(case["pickle"])
            check_sequence(ctx, ch, case["ops"], case["wakes"], case.get("engine", "large"))
    except Failure as f:
        return [{"kind": f.kind, "detail": f.detail}]
    return []


if __name__ == "__main__":
    if "--shard" in sys.argv:
        harness.shard_entry(sys.modules[__name__])
