"""C02 - the active configuration is legal after every microstep (both engines)."""
import sys, os, json
sys.path.insert(0, os.path.join(os.path.dirname(os.path.abspath(__file__)), "..", "pylib"))
sys.path.insert(0, os.path.dirname(os.path.abspath(__file__)))
import harness, gen, model, trace
from harness import Failure
from chartcase import *

PROPERTY = "C02"
LEVEL = "exploration"
RULE = ("cases = (chart, history, engine): charts generated freely (target lists / deep initial lists are NOT forced to be "
        "orthogonal), kept iff Interpreter::validate() reports no FATAL issue (discard rate measured), run under 'large' and "
        "'fast'; oracle = invariant after initialisation and after every step(): Rec. 3.11 legality (one active child per "
        "active compound, all children of active parallels, parent closure, >=1 atomic state, no pseudo-state), <scxml> "
        "entered exactly once and never exited before completion, and history soundness from serialize() at every stable "
        "point (states remembered for a history were simultaneously active, below its parent, at an earlier point of this "
        "run). non-trivial = configuration changed by an event and chart has a compound or parallel below the root; "
        "distinct = hash(document, history, engine)")
ASSUMPTIONS = ["legality predicate written from Rec. 3.11 over the generator's own AST",
               "nested history below a deep history is excluded by construction (known finding F-C02-1, witness replayed)",
               "generated C machine is covered by C04's configuration comparison, not here"]


def budget(tier):
    if tier == "thorough":
        return {"examples": 3000, "min_nontrivial": 2000}
    return {"examples": 300, "min_nontrivial": 200}


def legal(ch, cfg):
    """-> None or message"""
    ids = set(cfg)
    if '#root' not in ids:
        return "root (<scxml>) not in configuration"
    atomic = 0
    for i in cfg:
        s = ch.by_id.get(i)
        if s is None:
            return "unknown state %s" % i
        if not s.is_proper():
            return "pseudo-state %s in configuration" % i
        if s.parent is not None and s.parent.id not in ids:
            return "parent of %s (%s) not active" % (i, s.parent.id)
        if s.is_atomic():
            atomic += 1
        elif s.kind == 'parallel':
            for c in s.proper_children():
                if c.id not in ids:
                    return "parallel %s active without child %s" % (i, c.id)
        else:
            n = sum(1 for c in s.proper_children() if c.id in ids)
            if n != 1:
                return "compound %s has %d active children" % (i, n)
    if atomic == 0:
        return "no atomic state active"
    return None


def engine_order(ch):
    """document order as the engines number states after re-sorting pseudo states to the front"""
    out = []

    def walk(s):
        out.append(s)
        kids = [c for c in s.children if c.kind == 'initial'] + [c for c in reversed(s.children) if c.kind == 'history'] + \
               [c for c in s.children if c.kind not in ('initial', 'history')]
        for c in kids:
            walk(c)
    walk(ch.root)
    return out


def check_case(ctx, ch, events, engine):
    xml = ch.to_xml()
    r = run_engine(ctx, xml, engine, events, "validate ser")
    raw = r["trace"]
    if any(e[0] == 'vissue' and e[1] == 0 for e in raw):
        ctx.notes['discarded_validator_fatal'] += 1
        ctx.evaluations += 1
        return
    if r.get("exception"):
        raise Failure("exception", {"exception": r["exception"], "signature": r["exception"][:80]})
    order = engine_order(ch)
    cfgs = []
    root_entries = 0
    changed = False
    finished = False
    seen_cfgs = []
    for i, e in enumerate(raw):
        if e[0] == 'be' and e[1] == '#root':
            root_entries += 1
            if root_entries > 1:
                raise Failure("root-reentered", {"engine": engine, "index": i, "signature": "root-reentered"})
        if e[0] == 'bx' and e[1] == '#root':
            raise Failure("root-exited", {"engine": engine, "index": i, "window": raw[max(0, i - 6):i + 3], "signature": "root-exited"})
        if e[0] == 'bcomp':
            finished = True
        if e[0] == 'cfg' and not finished:
            msg = legal(ch, e[1])
            if msg:
                raise Failure("illegal-configuration", {"engine": engine, "message": msg, "configuration": e[1],
                                                        "window": raw[max(0, i - 12):i + 1], "signature": msg.split(' ')[0]})
            if cfgs and cfgs[-1] != e[1]:
                changed = True
            cfgs.append(e[1])
            if not seen_cfgs or seen_cfgs[-1] != set(e[1]):
                seen_cfgs.append(set(e[1]))
        if e[0] == 'ser' and not finished:
            try:
                ms = json.loads(e[1])["microstepper"]
                hist = [order[int(x)] for x in ms.get("histories", [])] if isinstance(ms.get("histories"), list) else []
            except Exception as ex:
                raise Failure("serialize-unreadable", {"engine": engine, "text": e[1][:300], "error": str(ex), "signature": "ser"})
            hs = set(s.id for s in hist)
            for h in ch.states:
                if h.kind != 'history':
                    continue
                if h.hist_type == 'deep':
                    comp = set(d.id for d in h.parent.descendants() if d.is_proper())
                else:
                    comp = set(c.id for c in h.parent.proper_children())
                val = comp & hs
                if val and not any(val <= c for c in seen_cfgs):
                    raise Failure("history-unsound", {"engine": engine, "history": h.id, "remembered": sorted(val),
                                                      "signature": "history-unsound"})
            for s in hist:
                if not any(a.kind in ('state', 'parallel') and any(c.kind == 'history' for c in a.children) for a in s.ancestors()):
                    raise Failure("history-unsound", {"engine": engine, "state": s.id, "signature": "history-outside"})
    if root_entries != 1:
        raise Failure("root-not-entered-once", {"engine": engine, "entries": root_entries, "signature": "root"})
    has_struct = any(s.kind == 'parallel' or (s.is_compound() and s.kind != 'scxml') for s in ch.states)
    labels = set()
    for s in ch.states:
        if s.kind == 'history':
            labels.add('has-history')
        if s.kind == 'parallel':
            labels.add('has-parallel')
    for t in ch.transitions:
        if len(t.targets) > 1:
            labels.add('multi-target')
        if not t.targets:
            labels.add('targetless')
        if any(x.startswith('h') for x in t.targets):
            labels.add('history-target')
    ctx.count(case_hash(ch, events) + engine, changed and has_struct, labels,
              sample=lambda: {"document": xml, "events": list(events), "engine": engine, "configurations": cfgs[:8]})


def shard_main(ctx):
    p = ctx.params
    mod = sys.modules[__name__]
    if ctx.shard == 0:
        ctx.replay_witnesses(mod)
        ctx.replay_corpus(mod)
    o = gen.GenOpts(loose=True, content=True)
    for engine in ("large", "fast"):
        ctx.run_hypothesis([gen.charts(o, 'lua'), gen.event_histories()],
                           lambda ch, evs, engine=engine: check_case(ctx, ch, evs, engine), p["examples"] // 2,
                           lambda ch, evs, engine=engine: dict(case_repr(ch, evs), engine=engine), name=engine)
        kp = gen.conflict_profile()
        kp.max_states = 9
        kp.descriptors = [['a'], ['a'], ['*'], ['b'], ['a', 'b'], ['a']]   # one transition reacting to both events warms the engines' caches
        ctx.run_hypothesis([gen.charts(kp, 'lua'), gen.event_histories(7, ['a', 'b'])],
                           lambda ch, evs, engine=engine: check_case(ctx, ch, evs, engine), p["examples"] // 2,
                           lambda ch, evs, engine=engine: dict(case_repr(ch, evs), engine=engine), name="conflict-" + engine)
        ctx.run_hypothesis([gen.parallel_region_charts('lua'), gen.event_histories(7, ['a', 'b', 'back'])],
                           lambda ch, evs, engine=engine: check_case(ctx, ch, evs, engine), p["examples"] // 2,
                           lambda ch, evs, engine=engine: dict(case_repr(ch, evs), engine=engine), name="regions-" + engine)
        cp = gen.completion_profile()
        cp.loose = True
        ctx.run_hypothesis([gen.charts(cp, 'lua'), gen.event_histories(5, ['a', 'b'])],
                           lambda ch, evs, engine=engine: check_case(ctx, ch, evs, engine), p["examples"] // 2,
                           lambda ch, evs, engine=engine: dict(case_repr(ch, evs), engine=engine), name="completion-" + engine)


def replay(ctx, case):
    ch, events = harness.unpack(case["pickle"])
    try:
        check_case(ctx, ch, events, case.get("engine", "large"))
    except Failure as f:
        return [{"kind": f.kind, "detail": f.detail}]
    return []


if __name__ == "__main__":
    if "--shard" in sys.argv:
        harness.shard_entry(sys.modules[__name__])
