"""C12 - event descriptors match exactly as the Recommendation prescribes (3.12.1)."""
import sys, os, json, itertools, subprocess, re
sys.path.insert(0, os.path.join(os.path.dirname(os.path.abspath(__file__)), "..", "pylib"))
sys.path.insert(0, os.path.dirname(os.path.abspath(__file__)))
import harness, gen, model, trace
from harness import Failure, VERIF, WORK
from model import ref_name_match
from chart import *
from chartcase import run_engine
from hypothesis import strategies as st

PROPERTY = "C12"
LEVEL = "exploration"
RULE = ("cases = (descriptor list, event name). Exhaustive core: all lists of <= 2 (thorough: <= 3) descriptors x all names, "
        "names = 1..3 tokens over {a,b,ab} joined by '.', descriptors = such a name with suffix '', '.*' or '.', or the lone "
        "'*', separated by single blanks, plus every list again with doubled / leading / trailing blanks; random stream: "
        "longer names and lists over a larger token alphabet incl. mixed case. Oracle = 12-line reference matcher written "
        "from Rec. 3.12.1 (token-wise prefix, '*' matches all, trailing '.*' or '.' ignored, case sensitive). Checked "
        "implementations: uscxml::nameMatch, the copy in the generated-C scaffolding (test/src/test-gen-c.cpp, extracted "
        "and compiled at check time), and the interpreter end-to-end under both engines (which transition of a one-state "
        "chart fires). non-trivial = descriptor list and name are different strings; distinct = distinct pair")
ASSUMPTIONS = ["only descriptors of the Recommendation's grammar and non-empty names without blanks are generated",
               "Promela / VHDL static resolution of descriptors is covered by C06 / C18's differential runs, not here"]
BUILDS = (("san", ["worker"]),)

TOK = ['a', 'b', 'ab']


def names(maxtok=3):
    out = []
    for n in range(1, maxtok + 1):
        for t in itertools.product(TOK, repeat=n):
            out.append(".".join(t))
    return out


def descriptors():
    out = ['*']
    for n in names():
        for suf in ('', '.*', '.'):
            out.append(n + suf)
    return out


def budget(tier):
    if tier == "thorough":
        return {"maxlist": 3, "random": 20000, "charts": 150, "min_nontrivial": 100000}
    return {"maxlist": 2, "random": 2000, "charts": 25, "min_nontrivial": 20000}


def build_scaffold():
    """extract nameMatch from the generated-C scaffolding and compile it stand-alone; returns binary path"""
    src = os.path.join(WORK, "mirror", "test", "src", "test-gen-c.cpp")
    text = open(src).read()
    m = re.search(r'static bool nameMatch\(const std::string& eventDescs, const std::string& eventName\) \{', text)
    if not m:
        raise RuntimeError("nameMatch not found in test-gen-c.cpp")
    i = m.end()
    depth = 1
    while depth > 0:
        c = text[i]
        if c == '{':
            depth += 1
        elif c == '}':
            depth -= 1
        i += 1
    func = text[m.start():i]
    os.makedirs(os.path.join(WORK, "gen"), exist_ok=True)
    cpp = os.path.join(WORK, "gen", "c12_scaffold.cpp")
    code = ('#include <string>\n#include <iostream>\n#include <iterator>\n#include <cctype>\n#include <boost/algorithm/string.hpp>\n'
            'using boost::iequals;\n' + func + '\n'
            'int main() { std::string all((std::istreambuf_iterator<char>(std::cin)), std::istreambuf_iterator<char>()); size_t p = 0;\n'
            ' while (p < all.size()) { size_t e = all.find(\'\\x1e\', p); if (e == std::string::npos) e = all.size();\n'
            '  std::string rec = all.substr(p, e - p); p = e + 1; size_t t = rec.find(\'\\x1f\');\n'
            '  std::cout << (nameMatch(rec.substr(0, t), rec.substr(t + 1)) ? \'1\' : \'0\'); } std::cout << std::endl; return 0; }\n')
    out = os.path.join(WORK, "bin", "c12scaffold")
    old = open(cpp).read() if os.path.exists(cpp) else None
    if old != code or not os.path.exists(out):
        open(cpp, "w").write(code)
        r = subprocess.run(["g++", "-O1", "-g", "-fsanitize=address,undefined", "-w", cpp, "-o", out],
                           stdout=subprocess.PIPE, stderr=subprocess.STDOUT, text=True)
        if r.returncode != 0:
            raise RuntimeError("scaffold compile failed: " + r.stdout[-2000:])
    return out


def scaffold_match(binpath, pairs):
    inp = "\x1e".join("%s\x1f%s" % p for p in pairs)
    r = subprocess.run([binpath], input=inp.encode(), stdout=subprocess.PIPE, stderr=subprocess.PIPE,
                       env=dict(os.environ, ASAN_OPTIONS="detect_leaks=0"))
    if r.returncode != 0:
        raise Failure("crash", {"impl": "scaffold", "stderr": r.stderr.decode("latin-1")[-2000:], "signature": "scaffold-crash"})
    bits = r.stdout.decode().strip()
    if len(bits) != len(pairs):
        raise RuntimeError("scaffold output length mismatch")
    return [c == '1' for c in bits]


def check_pairs(ctx, pairs, scaffold):
    w = ctx.worker()
    args = []
    for d, n in pairs:
        args += [d, n]
    try:
        got = w.call("namematch", *args)["r"]
    except harness.WorkerCrash as e:
        raise Failure("crash", {"impl": "nameMatch", "stderr": e.stderr[-2000:], "signature": "namematch-crash"})
    got2 = scaffold_match(scaffold, pairs)
    for (d, n), g, g2 in zip(pairs, got, got2):
        exp = ref_name_match(d, n)
        for impl, val in (("uscxml::nameMatch", g), ("test-gen-c scaffolding", g2)):
            if val != exp:
                raise Failure("match-mismatch", {"impl": impl, "descriptors": d, "name": n, "expected": exp, "observed": val,
                                                 "signature": [impl, exp]})
        ctx.count(harness.h64(d, n), d != n, ['matched' if exp else 'unmatched'],
                  sample={"descriptors": d, "name": n, "matches": exp})


def variants(lst):
    """blank variants of a descriptor list"""
    yield " ".join(lst)
    if len(lst) > 1:
        yield "  ".join(lst)
    yield " " + " ".join(lst)
    yield " ".join(lst) + " "


def chart_case(ctx, desc_lists, name):
    """one state, one targetless transition per descriptor list; the first matching one must fire (both engines)"""
    ts = [Trans(events=[d], content=[Log("T", ('c', i))]) for i, d in enumerate(desc_lists)]
    s0 = State('state', id='s0', transitions=ts)
    ch = Chart(State('scxml', children=[s0]), 'lua')
    exp = None
    for i, d in enumerate(desc_lists):
        if ref_name_match(d, name):
            exp = str(i)
            break
    for engine in ("large", "fast"):
        r = run_engine(ctx, ch.to_xml(), engine, [name])
        logs = [e[2] for e in trace.normalise(r["trace"]) if e[0] == 'log']
        got = logs[0] if logs else None
        if got != exp or len(logs) > 1:
            raise Failure("chart-mismatch", {"engine": engine, "descriptor_lists": desc_lists, "name": name, "expected_transition": exp,
                                             "fired": logs, "signature": [engine, "chart"]})
    ctx.count(harness.h64("chart", "|".join(desc_lists), name), True, ['chart'])


def shard_main(ctx):
    p = ctx.params
    scaffold = os.path.join(WORK, "bin", "c12scaffold")
    ds, ns = descriptors(), names()
    # exhaustive core, sharded by list index
    lists = []
    for k in range(1, p["maxlist"] + 1):
        if k <= 2:
            lists.extend(itertools.product(ds, repeat=k))
        else:
            # 3-lists: restrict the first two to one-token descriptors to keep the space tractable, third arbitrary
            small = [d for d in ds if d.count('.') <= 1 and not d.startswith('ab')]
            lists.extend(itertools.product(small, small, ds))
    batch = []
    first = None
    try:
        for li, lst in enumerate(lists):
            if li % ctx.nshards != ctx.shard:
                continue
            for v in variants(lst):
                for n in ns:
                    batch.append((v, n))
            if len(batch) >= 4000:
                check_pairs(ctx, batch, scaffold)
                batch = []
        if batch:
            check_pairs(ctx, batch, scaffold)
        ctx.exhaustive = True
    except Failure as f:
        ctx.failures.append({"kind": f.kind, "detail": f.detail, "case": {"descriptors": f.detail.get("descriptors"), "name": f.detail.get("name")}})
        ctx.exhaustive = False
        return
    # random longer ones
    tok = st.sampled_from(['a', 'b', 'ab', 'A', 'foo', 'done', 'state', 'error', 'x1', 'B'])
    name_s = st.lists(tok, min_size=1, max_size=5).map(".".join)
    desc_s = st.one_of(st.just('*'), st.tuples(name_s, st.sampled_from(['', '.*', '.', ''])).map(lambda t: t[0] + t[1]))
    sep_s = st.sampled_from([' ', ' ', '  ', '\t', ' \n '])
    list_s = st.tuples(st.lists(st.tuples(desc_s, sep_s), min_size=1, max_size=5), st.sampled_from(['', '', ' ']), st.sampled_from(['', '', ' '])) \
        .map(lambda t: t[1] + "".join(d + s for d, s in t[0][:-1]) + t[0][-1][0] + t[2])

    def body(d, n):
        check_pairs(ctx, [(d, n)], scaffold)
    ctx.run_hypothesis([list_s, name_s], body, p["random"] // ctx.nshards + 1,
                       lambda d, n: {"descriptors": d, "name": n})
    # interpreter end to end
    ctx.run_hypothesis([st.lists(list_s, min_size=1, max_size=4), name_s], lambda dl, n: chart_case(ctx, dl, n),
                       p["charts"] // ctx.nshards + 1, lambda dl, n: {"descriptor_lists": dl, "name": n}, name="chart")


def replay(ctx, case):
    scaffold = build_scaffold()
    try:
        if "descriptor_lists" in case:
            chart_case(ctx, case["descriptor_lists"], case["name"])
        else:
            check_pairs(ctx, [(case["descriptors"], case["name"])], scaffold)
    except Failure as f:
        return [{"kind": f.kind, "detail": f.detail}]
    return []


def main(tier, seed):
    # build first (mirror must exist before the scaffold is extracted)
    r = subprocess.run([sys.executable, os.path.join(VERIF, "tools", "build.py"), "san", "--harness", "worker"],
                       stdout=subprocess.PIPE, stderr=subprocess.PIPE, text=True)
    if r.returncode != 0:
        print("BUILD-FAILED\n" + r.stderr[-3000:])
        return 2
    try:
        build_scaffold()
    except Exception as e:
        print("CHECK-BROKEN C12: %s" % e)
        return 2
    return harness.run_check(sys.modules[__name__], tier, seed, builds=())


if __name__ == "__main__":
    if "--shard" in sys.argv:
        harness.shard_entry(sys.modules[__name__])
