"""C13 - monitor notifications are a well-nested, complete account of execution."""
import sys, os, json
sys.path.insert(0, os.path.join(os.path.dirname(os.path.abspath(__file__)), "..", "pylib"))
sys.path.insert(0, os.path.dirname(os.path.abspath(__file__)))
import harness, gen, model, trace
from harness import Failure
from chartcase import *

PROPERTY = "C13"
LEVEL = "exploration"
RULE = ("cases = (chart, history) from the C01 generator, half of them with injected failing elements (error inside a block), "
        "for both engines; oracle (1) a pushdown recogniser over the raw callback sequence: before/after balanced and "
        "properly nested; inside beforeMicroStep..afterMicroStep: exit brackets, then transition brackets, then entry "
        "brackets each optionally followed by initial/history transition brackets; executable-content brackets only "
        "inside a state/transition/completion bracket; log output only inside a content bracket; outside a microstep "
        "only event processing, stable-configuration, completion (and invocation) notices; (2) completeness/order "
        "against the reference model (every exited/entered state, taken transition, executed element, processed event "
        "once, in order; one stable notice per macrostep); (3) timed stream: charts with delayed sends to the own session "
        "(external queue and #_internal) polled while idle - bracket grammar plus the stream rule 'after a microstep a stable notice "
        "precedes the MACROSTEPPED / IDLE result of step()'). non-trivial = run has >= 1 executed element and >= 1 event; "
        "distinct = hash(document, history, engine)")
ASSUMPTIONS = ["protocol as encoded in test-lifecycle.cpp generalised by the property text",
               "initial/history transitions are reported in the entry phase (where Appendix D executes them)"]


def budget(tier):
    if tier == "thorough":
        return {"examples": 5000, "min_nontrivial": 2000}
    return {"examples": 300, "min_nontrivial": 200}


class NestError(Exception):
    pass


def check_nesting(raw):
    """raw worker trace -> None or raises NestError(index, message)"""
    stack = []        # entries: ('micro',) ('x', id) ('t', id) ('e', id) ('c', id) ('comp',)
    phase = None      # within micro: 'x' < 't' < 'e'
    order = {'x': 0, 't': 1, 'e': 2}
    after_entry = False
    for i, e in enumerate(raw):
        k = e[0]
        top = stack[-1] if stack else None
        if k in ('st', 'cfg', 'vissue', 'fed', 'ser', 'deserialized'):
            if k == 'st' and stack:
                raise NestError(i, "step() returned with open bracket %s" % (stack,))
            continue
        if k == 'bm':
            if stack:
                raise NestError(i, "beforeMicroStep inside %s" % (top,))
            stack.append(('micro',))
            phase = 'x'
            after_entry = False
        elif k == 'am':
            if top != ('micro',):
                raise NestError(i, "afterMicroStep but open: %s" % (top,))
            stack.pop()
        elif k in ('bx', 'bt', 'be'):
            kind = {'bx': 'x', 'bt': 't', 'be': 'e'}[k]
            if top != ('micro',):
                raise NestError(i, "%s %s outside microstep bracket / inside %s" % (k, e[1], top))
            if kind == 't' and phase == 'e':
                # initial / history transition right after an entered state
                if not after_entry:
                    raise NestError(i, "transition bracket in entry phase not following an entry")
            else:
                if order[kind] < order[phase]:
                    raise NestError(i, "%s %s after phase %s" % (k, e[1], phase))
                phase = kind
            stack.append((kind, e[1]))
        elif k in ('ax', 'at', 'ae'):
            kind = {'ax': 'x', 'at': 't', 'ae': 'e'}[k]
            if top != (kind, e[1]):
                raise NestError(i, "%s %s does not close %s" % (k, e[1], top))
            stack.pop()
            after_entry = (kind == 'e') or (kind == 't' and phase == 'e')
        elif k == 'bc':
            if top is None or top[0] not in ('x', 't', 'e', 'c', 'comp'):
                raise NestError(i, "content %s outside state/transition bracket (in %s)" % (e[1], top))
            stack.append(('c', e[1]))
        elif k == 'ac':
            if top != ('c', e[1]):
                raise NestError(i, "afterExecutingContent %s does not close %s" % (e[1], top))
            stack.pop()
        elif k == 'log':
            if top is None or top[0] != 'c':
                raise NestError(i, "log output outside content bracket")
        elif k == 'bcomp':
            if stack:
                raise NestError(i, "beforeCompletion inside %s" % (top,))
            stack.append(('comp',))
        elif k == 'acomp':
            if top != ('comp',):
                raise NestError(i, "afterCompletion does not close %s" % (top,))
            stack.pop()
        elif k in ('ev', 'stable', 'issue'):
            if k == 'issue':
                continue
            if stack:
                raise NestError(i, "%s inside bracket %s" % (k, top))
        elif k in ('bi', 'ai', 'bu', 'au'):
            if stack and top != ('comp',):
                raise NestError(i, "%s inside bracket %s" % (k, top))
        elif k == 'msg':
            continue
        else:
            raise NestError(i, "unknown entry %s" % (e,))
    if stack:
        raise NestError(len(raw), "trace ends with open brackets %s" % (stack,))


def check_stable_discipline(raw):
    """stream rule: once a microstep ran, a stable-configuration notice must be issued before step() reports the macrostep as
    completed (MACROSTEPPED) or the session as IDLE. (The event's type field is not used: an event sent to #_internal carries
    the type 'external'.)"""
    dirty = None
    for i, e in enumerate(raw):
        k = e[0]
        if k == 'am':
            dirty = i
        elif k == 'stable':
            dirty = None
        elif dirty is not None and k == 'st' and e[1] in ('IDLE', 'MACROSTEPPED'):
            raise NestError(i, "macrostep ended without a stable-configuration notice (microstep at %d, then %s)" % (dirty, e[:2]))


def check_timed_case(ctx, ch, engine):
    """charts with delayed sends to the own session, polled with step(0) while idle: bracket grammar + stable discipline"""
    xml = ch.to_xml()
    r = run_engine(ctx, xml, engine, [], "idlewait=90")
    raw = r["trace"]
    try:
        check_nesting(raw)
        check_stable_discipline(raw)
    except NestError as ne:
        i = ne.args[0]
        raise Failure("nesting", {"engine": engine, "message": ne.args[1], "window": {"index": i, "raw": raw[max(0, i - 10):i + 4]},
                                  "signature": [engine, ne.args[1].split('(')[0][:60]]})
    late = sum(1 for i, e in enumerate(raw) if e[0] == 'ev' and any(x[0] == 'st' and x[1] == 'IDLE' for x in raw[:i]))
    labels = {'timed-stream', 'engine-' + engine}
    if late:
        labels.add('event-arrived-while-idle')
    if any(e[0] == 'ev' and e[2] == 1 and any(x[0] == 'st' and x[1] == 'IDLE' for x in raw[:i]) for i, e in enumerate(raw)):
        labels.add('internal-event-arrived-while-idle')
    ctx.count(harness.h64(xml, engine, 'timed'), late > 0 and any(e[0] == 'bm' for e in raw), labels,
              sample=lambda: {"document": xml[:1200], "engine": engine, "events": [e[1] for e in raw if e[0] == 'ev'][:12]})


def check_case(ctx, ch, events, engine):
    xml = ch.to_xml()
    r = run_engine(ctx, xml, engine, events)
    raw = r["trace"]
    m, exp = run_model(ch, events)
    labels = set(m.labels)
    budget_cut = bool(exp and exp[-1] == ('budget',)) or r.get("budget")
    try:
        if budget_cut:
            # the run was cut at the step budget: only a prefix ending at a step boundary is checked
            last = max(i for i, e in enumerate(raw) if e[0] == 'st')
            check_nesting(raw[:last + 1])
        else:
            check_nesting(raw)
    except NestError as ne:
        i = ne.args[0]
        # known finding signatures (callsite)
        for f in ctx.kf.known(PROPERTY):
            sig = f.get("signature", {})
            if sig.get("kind") == "message" and sig["contains"] in ne.args[1] and \
                    (not sig.get("element") or any(sig["element"] in str(x) for x in raw[max(0, i - 3):i + 1])):
                ctx.known_finding(f["id"], {"xml": xml, "events": list(events)})
                ctx.count(case_hash(ch, events) + engine, False, ['excluded_by_known_finding'])
                return
        raise Failure("nesting", {"engine": engine, "message": ne.args[1], "window": {"index": i, "raw": raw[max(0, i - 8):i + 4]},
                                  "signature": ne.args[1].split(' ')[0:3]})
    # completeness vs the model (large: W3C or its recorded deviation; fast: same via C03's quirk) -- only when not attributed
    obs = trace.normalise(raw)
    ok = compare_prefix(exp, obs) < 0
    if not ok:
        for quirk in ('large-select', 'fast-select'):
            if compare_prefix(run_model(ch, events, quirks=[quirk])[1], obs) < 0:
                ok = True
                labels.add('selection-known-finding')
                break
    if not ok:
        i = compare_prefix(exp, obs)
        raise Failure("incomplete", {"engine": engine, "window": trace.diff_window(exp, obs, i),
                                     "signature": [str(exp[i]) if i < len(exp) else None, str(obs[i]) if i < len(obs) else None]})
    has_err = any(e[0] == 'err' for e in m.trace)
    if has_err:
        labels.add('error-inside-block')
    nontrivial = any(e[0] == 'c' for e in exp) and any(e[0] == 'ev' for e in exp)
    ctx.count(case_hash(ch, events) + engine, nontrivial, labels,
              sample=lambda: {"document": xml, "events": list(events), "engine": engine, "callbacks_head": raw[:30]})


def shard_main(ctx):
    p = ctx.params
    for name, o in (("plain", gen.GenOpts()), ("faults", gen.GenOpts(faults=True))):
        for engine in ("large", "fast"):
            ctx.run_hypothesis([gen.charts(o, 'lua'), gen.event_histories()],
                               lambda ch, evs, engine=engine: check_case(ctx, ch, evs, engine), p["examples"] // 4,
                               lambda ch, evs, engine=engine: dict(case_repr(ch, evs), engine=engine), name=name + engine)
    # failing elements inside the content of <initial> and history default transitions (taken in the entry phase, not with the
    # ordinary transitions): charts dense with both
    po = gen.GenOpts(faults=True, max_states=7, history_weight=4, hist_target_weight=3, deep_initial_weight=0, late_binding=False)
    for engine in ("large", "fast"):
        ctx.run_hypothesis([gen.charts(po, 'lua'), gen.event_histories(6)],
                           lambda ch, evs, engine=engine: check_case(ctx, ch, evs, engine), p["examples"] // 4,
                           lambda ch, evs, engine=engine: dict(case_repr(ch, evs), engine=engine), name="pseudo" + engine)
    # timed stream: delayed sends to the own session (external queue and #_internal) expiring while the session is idle
    for engine in ("large", "fast"):
        ctx.run_hypothesis([gen.delayed_charts('lua')], lambda ch, engine=engine: check_timed_case(ctx, ch, engine), p["examples"] // 8 + 1,
                           lambda ch, engine=engine: dict(case_repr(ch, []), engine=engine, timed=True), name="timed" + engine)


def replay(ctx, case):
    ch, events = harness.unpack(case["pickle"])
    try:
        if case.get("timed"):
            check_timed_case(ctx, ch, case.get("engine", "large"))
            return []
        check_case(ctx, ch, events, case.get("engine", "large"))
    except Failure as f:
        return [{"kind": f.kind, "detail": f.detail}]
    return []


if __name__ == "__main__":
    if "--shard" in sys.argv:
        harness.shard_entry(sys.modules[__name__])
