"""C06 - the Promela model preserves the chart's behaviour (emitted model executed by spin in simulation mode)."""
import sys, os, json, re, subprocess, shutil
import xml.etree.ElementTree as ET
sys.path.insert(0, os.path.join(os.path.dirname(os.path.abspath(__file__)), "..", "pylib"))
sys.path.insert(0, os.path.dirname(os.path.abspath(__file__)))
import harness, gen, trace, model
from harness import Failure, WORK
from chart import *
from chartcase import *
from worker import WorkerCrash, WorkerHang
from hypothesis import strategies as st

PROPERTY = "C06"
LEVEL = "translation_validation"
RULE = ("programs = generated charts of the Promela back-end's fragment (promela datamodel, integer data, raise / immediate send "
        "to the own session / assign / if / log content, history, parallel, done events; no nested machines, no delays) whose "
        "external events are produced by <send> elements of the chart itself (a generated event history is sent from the "
        "onentry of the first entered state). Each is emitted by ChartToPromela in-process and the model is EXECUTED by spin "
        "in simulation mode (spin -T, used as an interpreter of the emitted text, never as a verifier; three different spin "
        "seeds must agree); the TRACE_EXECUTION output (Entering/Exiting state n, Taking transition n, dequeued event ids, "
        "log values) is mapped back through the emitted #defines and the annotated document and compared with the same "
        "projection of the interpreter's trace for the same document. non-trivial = >= 2 event-triggered microsteps; "
        "distinct = distinct document")
ASSUMPTIONS = ["spin's simulator implements Promela", "the trailing 'ltl w3c' claim of the emitted file (it refers to a state named pass) is "
               "stripped before simulation", "differences explained exactly by the transpilers' conflict relation are attributed to the "
               "recorded known finding"]
BUILDS = (("san", ["worker"]),)


def budget(tier):
    if tier == "thorough":
        return {"charts": 5000, "min_nontrivial": 1000}
    return {"charts": 1920, "min_nontrivial": 150}


def pml_opts():
    return gen.GenOpts(max_states=8, late_binding=False, local_data=False, in_conds=False, send=True, faults=False,
                       descriptors=[['a'], ['b'], ['c'], ['a', 'b'], ['*'], ['a.b'], ['a.*']])


def inject_history(ch, events):
    """external events are sent by the chart itself: an extra onentry block of the first entered proper state"""
    if getattr(ch, '_history_injected', False):
        return
    ch._history_injected = True
    m = model.Model(ch, max_micro=5)
    try:
        m.run([])
    except Exception:
        pass
    first = next((e[1] for e in m.trace if e[0] == 'e' and e[1] != '#root'), None)
    if first is None or not events:
        return
    ch.by_id[first].onentry = [[Send(ev) for ev in events]] + ch.by_id[first].onentry
    ch.finish()


def parse_spin(text, st_by_idx, tr_by_idx, ev_by_num):
    out = []
    pending_ev = None
    # log output has no newline: split it off lines that start with a known label
    for raw in text.splitlines():
        line = raw
        # a log "label: value" may be glued in front of the next trace line
        m = re.match(r'^([A-Za-z_0-9]+): (-?\d+)(.*)$', line)
        while m and not line.startswith(('Configuration', 'Selected', 'Target', 'Exit Set', 'History', 'Entry Set', 'COMPLET', 'CONFIG', 'TMP_STS')):
            out.append(('log', m.group(1), m.group(2)))
            line = m.group(3)
            m = re.match(r'^([A-Za-z_0-9]+): (-?\d+)(.*)$', line)
        if line.startswith('Deqeued an internal event'):
            pending_ev = 'i'
        elif line.startswith('Deqeued an external event'):
            pending_ev = 'e'
        elif line.startswith('Establishing optimal transition set for event'):
            n = int(line.rsplit(' ', 1)[1])
            if n != 0 and pending_ev:
                out.append(('ev', ev_by_num.get(n, '#%d' % n)))
            pending_ev = None
        elif line.startswith('Exiting state '):
            out.append(('x', st_by_idx.get(int(line.split()[-1]), line)))
        elif line.startswith('Entering state '):
            out.append(('e', st_by_idx.get(int(line.split()[-1]), line)))
        elif line.startswith('Taking transition '):
            out.append(('t', tr_by_idx.get(int(line.split()[-1]), line)))
        elif line.startswith('Machine finished'):
            out.append(('finished',))
    return out


def _keep(e, normal_t):
    # the model prints 'Taking transition' only for ordinary transitions (the content of initial / history transitions is
    # still visible through its log output); the position of the completion marker relative to the final onexit handlers
    # is a printing matter: both are projected away
    if e[0] in ('x', 'e', 'ev', 'log'):
        return True
    return e[0] == 't' and e[1] in normal_t


def project_interp(raw, normal_t):
    return [e for e in trace.normalise(raw, keep_content=False) if _keep(e, normal_t)]


def project_model(mtrace, normal_t):
    return [e for e in mtrace if _keep(e, normal_t)]


def check_case(ctx, ch, events):
    inject_history(ch, events)
    xml = ch.to_xml('promela')
    mdl, exp = run_model(ch, [])
    if (exp and exp[-1] == ('budget',)) or not any(t.kind == 'normal' for t in ch.transitions):
        # a chart that never becomes stable fills the model's bounded event queues (the emitted channels hold 13 events):
        # the Promela model can only represent bounded runs; a chart without any transition is degenerate (zero-length
        # transition arrays). Both classes are outside the back-end's fragment and are skipped (counted).
        ctx.notes['skipped_unbounded_or_degenerate'] += 1
        ctx.evaluations += 1
        return
    try:
        r = ctx.worker().call("transform", xml, "pml")
    except WorkerCrash as e:
        raise Failure("crash", {"stderr": e.stderr[-2500:], "signature": crash_signature(e.stderr)})
    except WorkerHang:
        raise Failure("hang", {"signature": "hang"})
    if r.get("exception"):
        raise Failure("transform-exception", {"exception": r["exception"][:500], "signature": r["exception"][:60]})
    text = "\n".join(l for l in r["text"].splitlines() if not l.startswith("ltl w3c")) + "\n"
    ann = ET.fromstring(r["annotated"].replace('encoding="UTF-16"', 'encoding="UTF-8"').encode("utf-8"))
    st_by_idx, tr_by_idx = {}, {}
    for el in ann.iter():
        tag = el.tag.split('}')[-1]
        if tag in ('scxml', 'state', 'parallel', 'final', 'initial', 'history'):
            st_by_idx[int(el.get('documentOrder'))] = el.get('vid')
        elif tag == 'transition':
            tr_by_idx[int(el.get('postFixOrder'))] = el.get('vid')
    ev_by_num = {}
    for m in re.finditer(r'^#define (\w+) (\d+) /\* (.+?) \*/$', text, re.M):
        if not m.group(1).startswith('ROOT') and 'index for' not in m.group(3):
            ev_by_num[int(m.group(2))] = m.group(3)
    d = os.path.join(WORK, "scratch", "c06_%d" % os.getpid())
    os.makedirs(d, exist_ok=True)
    open(os.path.join(d, "m.pml"), "w").write(text)
    runs = []
    for seed in (1, 7, 123):
        try:
            sp = subprocess.run(["spin", "-T", "-n%d" % seed, "-u3000000", "m.pml"], stdout=subprocess.PIPE, stderr=subprocess.STDOUT, cwd=d, timeout=60)
        except subprocess.TimeoutExpired:
            raise Failure("spin-timeout", {"signature": "spin-timeout"})
        out = sp.stdout.decode("latin-1")
        if re.search(r'spin: .*(Error|error)', out) or 'syntax error' in out:
            err = [l for l in out.splitlines() if 'rror' in l][:3]
            if any('stmnt in d_step' in l for l in err) and 'Taking a step' in out:
                # the emitted channels are bounded (chan ROOT_iQ = [n], ROOT_eQ = [m]): a chart that legitimately holds more
                # events than that at some point is outside what the emitted model can represent
                caps = {m.group(1): int(m.group(2)) for m in re.finditer(r'^chan ROOT_(iQ|eQ)\s*=\s*\[(\d+)\]', text, re.M)}
                if getattr(mdl, 'max_iq', 0) >= caps.get('iQ', 1 << 30) or getattr(mdl, 'max_eq', 0) >= caps.get('eQ', 1 << 30):
                    ctx.notes['skipped_queue_bound_exceeded'] += 1
                    ctx.evaluations += 1
                    return
                # a run-time block inside d_step = a bounded event queue overflowed. If the transpilers' conflict relation
                # (known finding) turns this chart into a never-stabilising one, that is the explanation.
                qm, qexp = run_model(ch, [], quirks=['fast-select'])
                fid = ctx.kf.quirk_ids(PROPERTY).get('fast-select')
                if fid and qexp and qexp[-1] == ('budget',):
                    ctx.known_finding(fid, {"xml": xml})
                    ctx.count(harness.h64(xml), False, ['excluded_by_known_finding'])
                    return
            raise Failure("model-rejected-by-spin", {"messages": err, "signature": ["spin-error", (err[0] if err else "")[:50].split(',')[-1]]})
        runs.append(parse_spin(out, st_by_idx, tr_by_idx, ev_by_num))
    if runs[0] != runs[1] or runs[0] != runs[2]:
        raise Failure("model-nondeterministic", {"signature": "nondeterministic", "lengths": [len(x) for x in runs]})
    normal_t = set(t.vid for t in ch.transitions if t.kind == 'normal')
    ptrace = [e for e in runs[0] if _keep(e, normal_t)]
    ir = run_engine(ctx, xml, "large", [], "")
    if ir.get("exception"):
        raise Failure("interpreter-exception", {"exception": ir["exception"], "signature": "interp-exception"})
    itrace = project_interp(ir["trace"], normal_t)
    labels = set(mdl.labels)
    budget_cut = bool(exp and exp[-1] == ('budget',)) or ir.get("budget") or any(e[0] == 'budget' for e in exp)
    a, b = ptrace, itrace
    if budget_cut:
        n = min(len(a), len(b))
        a, b = a[:n], b[:n]
    if a != b:
        qm, qexp = run_model(ch, [], quirks=['fast-select'])
        qp = project_model(qexp, normal_t)
        fid = ctx.kf.quirk_ids(PROPERTY).get('fast-select')
        okI = compare_prefix(exp, trace.normalise(ir["trace"])) < 0 or \
            compare_prefix(run_model(ch, [], quirks=['large-select'])[1], trace.normalise(ir["trace"])) < 0
        if fid and okI:
            k = min(len(qp), len(ptrace)) if (qexp and qexp[-1] == ('budget',)) else max(len(qp), len(ptrace))
            if qp[:k] == ptrace[:k] and k > 0:
                ctx.known_finding(fid, {"xml": xml})
                ctx.count(harness.h64(xml), False, ['excluded_by_known_finding'])
                return
        i = next((k for k in range(min(len(a), len(b))) if a[k] != b[k]), min(len(a), len(b)))
        raise Failure("trace-mismatch", {"window": {"index": i, "promela_model": [list(map(str, x)) for x in a[max(0, i - 6):i + 6]],
                                                    "interpreter": [list(map(str, x)) for x in b[max(0, i - 6):i + 6]]},
                                         "labels": sorted(labels),
                                         "signature": [str(a[i])[:40] if i < len(a) else None, str(b[i])[:40] if i < len(b) else None]})
    nev = sum(1 for e in ptrace if e[0] == 'ev')
    for t in ch.transitions:
        if any(d.endswith('.*') or d == '*' for d in t.events):
            labels.add('prefix-descriptor')
    ctx.count(harness.h64(xml), nev >= 2, labels,
              sample=lambda: {"document": xml, "model_trace_head": [list(map(str, x)) for x in ptrace[:25]]})


def shard_main(ctx):
    p = ctx.params
    mod = sys.modules[__name__]
    if ctx.shard == 0:
        ctx.replay_witnesses(mod)
        ctx.replay_corpus(mod)
    try:
        ctx.run_hypothesis([gen.charts(pml_opts(), 'promela'), gen.event_histories(5)], lambda ch, evs: check_case(ctx, ch, evs),
                           p["charts"] // ctx.nshards + 1, case_repr)
        hp = gen.history_profile()
        hp.in_conds = False
        hp.descriptors = [['a'], ['b'], ['a'], ['*']]
        ctx.run_hypothesis([gen.charts(hp, 'promela'), gen.event_histories(6, ['a', 'b'])], lambda ch, evs: check_case(ctx, ch, evs),
                           p["charts"] // (3 * ctx.nshards) + 1, case_repr, name="history")
        ctx.run_hypothesis([gen.parallel_final_charts('promela'), gen.event_histories(8, ['a', 'b', 'c', 'a', 'b', 'c', 'leave', 'back'])],
                           lambda ch, evs: check_case(ctx, ch, evs), p["charts"] // (6 * ctx.nshards) + 1, case_repr, name="pardone")
        # event descriptor resolution (the Promela back-end resolves descriptors statically against the names it finds)
        ctx.run_hypothesis([gen.descriptor_charts('promela'), st.just([])], lambda ch, evs: check_case(ctx, ch, evs),
                           p["charts"] // (6 * ctx.nshards) + 1, case_repr, name="descriptors")
        cp = gen.completion_profile()
        cp.in_conds = False
        ctx.run_hypothesis([gen.charts(cp, 'promela'), gen.event_histories(4, ['a', 'b'])], lambda ch, evs: check_case(ctx, ch, evs),
                           p["charts"] // (3 * ctx.nshards) + 1, case_repr, name="completion")
    finally:
        shutil.rmtree(os.path.join(WORK, "scratch", "c06_%d" % os.getpid()), ignore_errors=True)


def replay(ctx, case):
    ch, events = harness.unpack(case["pickle"])
    try:
        check_case(ctx, ch, [])   # the history was already injected into the pickled chart
    except Failure as f:
        return [{"kind": f.kind, "detail": f.detail}]
    finally:
        shutil.rmtree(os.path.join(WORK, "scratch", "c06_%d" % os.getpid()), ignore_errors=True)
    return []


def extra_coverage(results):
    return {"programs": sum(r["evaluations"] for r in results), "disagreements_checked": sum(len(r["failures"]) for r in results)}


if __name__ == "__main__":
    if "--shard" in sys.argv:
        harness.shard_entry(sys.modules[__name__])
