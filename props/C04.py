"""C04 - the generated ANSI-C machine behaves like the interpreted chart."""
import sys, os, json, re, subprocess, shutil, hashlib
sys.path.insert(0, os.path.join(os.path.dirname(os.path.abspath(__file__)), "..", "pylib"))
sys.path.insert(0, os.path.dirname(os.path.abspath(__file__)))
import harness, gen, trace, model
from harness import Failure, WORK, VERIF
from chart import *
from chartcase import *
from worker import WorkerCrash, WorkerHang

PROPERTY = "C04"
LEVEL = "translation_validation"
RULE = ("programs = generated charts of the C transpiler's fragment (state/parallel/final/history/initial nesting, internal, "
        "targetless and multi-target transitions, log/raise/send/assign/if content, integer data; no invoke) x external event "
        "histories, including size classes that cross the byte boundaries of the emitted bit arrays (7/8/9 and 15/16/17 "
        "states or transitions). Each is emitted by ChartToC in-process, compiled together with a scaffold (callbacks written "
        "from the emitted header's contract; expressions compiled from the same abstract chart) with clang -O0 "
        "-fsanitize=address,undefined using exactly the sizing macros the generator emitted, run, and its trace (dequeued "
        "events, log output with values, raise/send/assign calls, configuration after every uscxml_step, final data) is "
        "compared with the same projection of the interpreter's trace for the same document and history. Additionally the "
        "emitted sizing macros are checked arithmetically against the emitted table sizes. non-trivial = >= 2 microsteps and "
        "(history or parallel or final-in-compound); distinct = distinct (document, history)")
ASSUMPTIONS = ["scaffold callbacks follow the contract documented in the emitted header and test/src/test-gen-c.cpp",
               "differences explained exactly by the transpilers' documented conflict relation (source ancestry) are attributed to "
               "the recorded known finding, everything else is a violation", "no invoke / nested machines, no delayed send"]
BUILDS = (("san", ["worker"]),)


def budget(tier):
    if tier == "thorough":
        return {"charts": 4000, "min_nontrivial": 800}
    return {"charts": 300, "min_nontrivial": 50}


def c_expr(e):
    k = e[0]
    if k == 'c':
        return "(%dL)" % e[1]
    if k == 'v':
        return "V_%s" % e[1]
    if k in ('+', '-', '*', '<', '<=', '==', '!=', '>', '>='):
        return "(%s %s %s)" % (c_expr(e[1]), k, c_expr(e[2]))
    if k == 'in':
        return 'in_state(ctx, "%s")' % e[1]
    if k == 'and':
        return "(%s && %s)" % (c_expr(e[1]), c_expr(e[2]))
    if k == 'or':
        return "(%s || %s)" % (c_expr(e[1]), c_expr(e[2]))
    if k == 'not':
        return "(!%s)" % c_expr(e[1])
    if k == 'true':
        return "1"
    if k == 'false':
        return "0"
    raise ValueError(e)


def all_exprs(ch):
    out = []

    def from_execs(lst):
        for x in lst:
            if x.kind == 'log':
                out.append(x.expr)
            elif x.kind == 'assign':
                out.append(x.expr)
            elif x.kind == 'if':
                for c, body in x.branches:
                    if c is not None:
                        out.append(c)
                    from_execs(body)
    for s in ch.states:
        for b in s.onentry + s.onexit:
            from_execs(b)
        for t in s.transitions:
            if t.cond is not None:
                out.append(t.cond)
            from_execs(t.content)
        for _, e in s.datas:
            out.append(e)
    return out


HARNESS = r'''
#include <stdio.h>
#include <string.h>
#include <stdlib.h>
#include "gen.c"

typedef struct { char name[64]; } ev_t;
static ev_t iq[256], eq[256];
static int iqh = 0, iqt = 0, eqh = 0, eqt = 0;
static ev_t curr;
%(vars)s

static int in_state(const uscxml_ctx* ctx, const char* id) {
    size_t i;
    for (i = 0; i < ctx->machine->nr_states; i++) {
        if (ctx->machine->states[i].name != NULL && strcmp(ctx->machine->states[i].name, id) == 0)
            return BIT_HAS(i, ctx->config);
    }
    return 0;
}

static long eval_expr(const uscxml_ctx* ctx, const char* e, int* ok) {
    *ok = 1;
%(exprs)s
    *ok = 0;
    fprintf(stderr, "HARNESS: unknown expression [%%s]\n", e);
    exit(3);
    return 0;
}

static long* var_ptr(const char* name) {
%(varptrs)s
    fprintf(stderr, "HARNESS: unknown variable [%%s]\n", name);
    exit(3);
    return NULL;
}

/* reference matcher, Rec 3.12.1 */
static int name_match(const char* descs, const char* name) {
    const char* p = descs;
    size_t nl = strlen(name);
    while (*p) {
        while (*p == ' ') p++;
        const char* s = p;
        while (*p && *p != ' ') p++;
        size_t dl = p - s;
        if (dl == 0) continue;
        if (dl == 1 && s[0] == '*') return 1;
        while (dl >= 2 && s[dl-1] == '*' && s[dl-2] == '.') dl -= 2;
        while (dl >= 1 && s[dl-1] == '.') dl -= 1;
        if (dl == 0) continue;
        if (dl <= nl && strncmp(s, name, dl) == 0 && (name[dl] == 0 || name[dl] == '.')) return 1;
    }
    return 0;
}

static void* dequeue_internal(const uscxml_ctx* ctx) {
    if (iqh == iqt) return NULL;
    curr = iq[iqh++ %% 256];
    printf("ev %%s\n", curr.name);
    return &curr;
}
static void* dequeue_external(const uscxml_ctx* ctx) {
    if (eqh == eqt) return NULL;
    curr = eq[eqh++ %% 256];
    printf("ev %%s\n", curr.name);
    return &curr;
}
static void push(ev_t* q, int* t, const char* name) { strncpy(q[*t %% 256].name, name, 63); q[*t %% 256].name[63] = 0; (*t)++; }
static int is_matched(const uscxml_ctx* ctx, const uscxml_transition* t, const void* e) { return name_match(t->event, ((const ev_t*)e)->name); }
static int is_true(const uscxml_ctx* ctx, const char* expr) { int ok; return eval_expr(ctx, expr, &ok) != 0; }
static int do_log(const uscxml_ctx* ctx, const char* label, const char* expr) { int ok; printf("log %%s %%ld\n", label ? label : "", eval_expr(ctx, expr, &ok)); return USCXML_ERR_OK; }
static int do_raise(const uscxml_ctx* ctx, const char* event) { printf("raise %%s\n", event); push(iq, &iqt, event); return USCXML_ERR_OK; }
static int do_send(const uscxml_ctx* ctx, const uscxml_elem_send* s) {
    printf("send %%s\n", s->event);
    if (s->target != NULL && strcmp(s->target, "#_internal") == 0) push(iq, &iqt, s->event); else push(eq, &eqt, s->event);
    return USCXML_ERR_OK;
}
static int do_assign(const uscxml_ctx* ctx, const uscxml_elem_assign* a) { int ok; printf("assign %%s\n", a->location); *var_ptr(a->location) = eval_expr(ctx, a->expr, &ok); return USCXML_ERR_OK; }
static int do_init(const uscxml_ctx* ctx, const uscxml_elem_data* d) {
    int ok;
    while (USCXML_ELEM_DATA_IS_SET(d)) { if (d->expr != NULL) *var_ptr(d->id) = eval_expr(ctx, d->expr, &ok); d++; }
    return USCXML_ERR_OK;
}
static int do_done(const uscxml_ctx* ctx, const uscxml_state* state, const uscxml_elem_donedata* donedata) {
    char buf[64]; snprintf(buf, sizeof buf, "done.state.%%s", state->name ? state->name : "?"); push(iq, &iqt, buf); return USCXML_ERR_OK;
}

static void print_cfg(const uscxml_ctx* ctx) {
    size_t i; printf("cfg");
    for (i = 0; i < ctx->machine->nr_states; i++) if (BIT_HAS(i, ctx->config)) printf(" %%s", ctx->machine->states[i].name ? ctx->machine->states[i].name : "#root");
    printf("\n");
}

int main(int argc, char** argv) {
    uscxml_ctx ctx;
    int next = 1, err, steps = 0;
    /* canaries around the context to catch writes past the emitted array sizes even without ASan */
    memset(&ctx, 0, sizeof(uscxml_ctx));
    ctx.machine = &USCXML_MACHINE;
    ctx.dequeue_internal = dequeue_internal; ctx.dequeue_external = dequeue_external;
    ctx.is_matched = is_matched; ctx.is_true = is_true; ctx.raise_done_event = do_done;
    ctx.exec_content_log = do_log; ctx.exec_content_raise = do_raise; ctx.exec_content_send = do_send;
    ctx.exec_content_assign = do_assign; ctx.exec_content_init = do_init;
    while (steps++ < %(maxsteps)d) {
        err = uscxml_step(&ctx);
        printf("st %%d\n", err);
        print_cfg(&ctx);
        if (err == USCXML_ERR_DONE) { printf("finished\n"); break; }
        if (err == USCXML_ERR_IDLE) {
            if (next < argc) { push(eq, &eqt, argv[next++]); } else break;
        } else if (err != USCXML_ERR_OK) { printf("error %%d\n", err); break; }
    }
%(dump)s
    return 0;
}
'''


def make_harness(ch, maxsteps):
    vars_ = [v for v, _ in ch.variables] + [n for s in ch.states for n, _ in s.datas]
    decl = "\n".join("static long V_%s = 0;" % v for v in vars_)
    seen = {}
    for e in all_exprs(ch):
        seen[render_expr(e, 'lua')] = c_expr(e)
    for v, val in ch.variables:
        seen[str(val)] = "(%dL)" % val
    ex = "\n".join('    if (strcmp(e, %s) == 0) return (long)(%s);' % (json.dumps(k), c) for k, c in seen.items())
    vp = "\n".join('    if (strcmp(name, "%s") == 0) return &V_%s;' % (v, v) for v in vars_)
    dump = "\n".join('    printf("data %s %%ld\\n", V_%s);' % (v, v) for v, _ in ch.variables)
    return HARNESS % {"vars": decl, "exprs": ex, "varptrs": vp, "maxsteps": maxsteps, "dump": dump}


def project_interp(ch, raw):
    out = []
    last_cfg = None
    want_cfg = False
    for e in raw:
        k = e[0]
        if k == 'ev':
            out.append(('ev', e[1]))
        elif k == 'log':
            msg = e[1].rstrip('\n')
            label, val = msg.split(': ', 1) if ': ' in msg else ('', msg)
            out.append(('log', label, trace.norm_value(val)))
        elif k == 'bc':
            x = ch.execs.get(e[1])
            if x is not None and x.kind == 'raise':
                out.append(('raise', x.event))
            elif x is not None and x.kind == 'send':
                out.append(('send', x.event))
            elif x is not None and x.kind == 'assign':
                out.append(('assign', x.var))
        elif k == 'am':
            want_cfg = True
        elif k == 'cfg' and want_cfg:
            want_cfg = False
            c = tuple(e[1])
            if c != last_cfg:
                out.append(('cfg', c))
                last_cfg = c
        elif k == 'st' and e[1] == 'FINISHED':
            out.append(('finished',))
    return out


def project_c(ch, text):
    out = []
    last_cfg = None
    order = {s.id: s.order for s in ch.states}
    for line in text.splitlines():
        p = line.split(' ')
        if p[0] == 'ev':
            out.append(('ev', p[1]))
        elif p[0] == 'log':
            out.append(('log', p[1], p[2]))
        elif p[0] in ('raise', 'send', 'assign'):
            out.append((p[0], p[1]))
        elif p[0] == 'cfg':
            c = tuple(sorted(p[1:], key=lambda i: order.get(i, 999)))
            if c and c != last_cfg:
                out.append(('cfg', c))
                last_cfg = c
        elif p[0] == 'finished':
            out.append(('finished',))
    return out


def project_model(ch, mtrace):
    out = []
    last_cfg = None
    for e in mtrace:
        k = e[0]
        if k == 'ev':
            out.append(e)
        elif k == 'log':
            out.append(e)
        elif k == 'c':
            x = ch.execs.get(e[1])
            if x is not None and x.kind == 'raise':
                out.append(('raise', x.event))
            elif x is not None and x.kind == 'send':
                out.append(('send', x.event))
            elif x is not None and x.kind == 'assign':
                out.append(('assign', x.var))
        elif k == 'cfg':
            if e[1] != last_cfg:
                out.append(e)
                last_cfg = e[1]
        elif k == 'finished':
            out.append(e)
    return out


def sizing_check(text, fail):
    """arithmetic check of the emitted sizing macros against every machine's table sizes"""
    sb = int(re.search(r'define USCXML_MAX_NR_STATES_BYTES (\d+)', text).group(1))
    tb = int(re.search(r'define USCXML_MAX_NR_TRANS_BYTES (\d+)', text).group(1))
    st_t = re.search(r'define USCXML_NR_STATES_TYPE (\w+)', text).group(1)
    tr_t = re.search(r'define USCXML_NR_TRANS_TYPE (\w+)', text).group(1)
    width = {'uint8_t': 8, 'uint16_t': 16, 'uint32_t': 32, 'uint64_t': 64}
    for ns, nt in re.findall(r'/\* nr_states\s*\*/\s*(\d+),\s*/\* nr_transitions\s*\*/\s*(\d+),', text):
        ns, nt = int(ns), int(nt)
        if (ns + 7) // 8 > sb:
            fail("sizing", macro="USCXML_MAX_NR_STATES_BYTES", value=sb, nr_states=ns)
        if (nt + 7) // 8 > tb:
            fail("sizing", macro="USCXML_MAX_NR_TRANS_BYTES", value=tb, nr_transitions=nt)
        if ns >= (1 << width[st_t]):
            fail("sizing", macro="USCXML_NR_STATES_TYPE", value=st_t, nr_states=ns)
        if nt >= (1 << width[tr_t]):
            fail("sizing", macro="USCXML_NR_TRANS_TYPE", value=tr_t, nr_transitions=nt)


def check_case(ctx, ch, events):
    xml = ch.to_xml('lua')

    def fail(kind, **kw):
        raise Failure(kind, dict(kw, signature=[kind, kw.get("macro", "")]))
    try:
        r = ctx.worker().call("transform", xml, "c")
    except WorkerCrash as e:
        raise Failure("crash", {"stderr": e.stderr[-2500:], "signature": crash_signature(e.stderr)})
    if r.get("exception"):
        raise Failure("transform-exception", {"exception": r["exception"], "signature": r["exception"][:60]})
    text = r["text"]
    sizing_check(text, fail)
    d = os.path.join(WORK, "scratch", "c04_%d" % os.getpid())
    os.makedirs(d, exist_ok=True)
    open(os.path.join(d, "gen.c"), "w").write(text)
    open(os.path.join(d, "harness.c"), "w").write(make_harness(ch, ENGINE_STEPS))
    exe = os.path.join(d, "machine")
    cc = subprocess.run(["clang", "-O0", "-g", "-w", "-fsanitize=address,undefined", "-fno-sanitize=signed-integer-overflow", "-fno-sanitize-recover=undefined",
                         "-o", exe, os.path.join(d, "harness.c")], stdout=subprocess.PIPE, stderr=subprocess.STDOUT, text=True, cwd=d)
    if cc.returncode != 0:
        raise Failure("generated-c-does-not-compile", {"compiler": cc.stdout[-2000:], "signature": "compile"})
    try:
        run = subprocess.run([exe] + list(events), stdout=subprocess.PIPE, stderr=subprocess.PIPE, timeout=30,
                             env=dict(os.environ, ASAN_OPTIONS="detect_leaks=0"))
    except subprocess.TimeoutExpired:
        raise Failure("generated-c-hangs", {"signature": "hang"})
    if run.returncode == 3:
        raise RuntimeError("harness broken: " + run.stderr.decode("latin-1")[-500:])
    if run.returncode != 0:
        raise Failure("generated-c-crashes", {"stderr": run.stderr.decode("latin-1")[-2500:], "rc": run.returncode,
                                              "signature": crash_signature(run.stderr.decode("latin-1"))})
    ctrace = project_c(ch, run.stdout.decode("latin-1"))
    cdata = dict(re.findall(r'^data (\w+) (-?\d+)$', run.stdout.decode("latin-1"), re.M))
    ir = run_engine(ctx, xml, "large", events, "data vars=%s" % ",".join(v for v, _ in ch.variables) if ch.variables else "")
    itrace = project_interp(ch, ir["trace"])
    m, exp = run_model(ch, events)
    labels = set(m.labels)
    budget_cut = bool(exp and exp[-1] == ('budget',)) or ir.get("budget")
    n = min(len(ctrace), len(itrace)) if budget_cut else max(len(ctrace), len(itrace))
    if budget_cut:
        # compare up to the last configuration entry both sides have
        k = n
        while k > 0 and not (ctrace[k - 1][0] == 'cfg' and itrace[k - 1][0] == 'cfg'):
            k -= 1
        n = k
    a, b = ctrace[:n], itrace[:n]
    if a != b:
        # attribution: the generated machine uses the transpilers' conflict relation (known finding)
        qm, qexp = run_model(ch, events, quirks=['fast-select'])
        qp = project_model(ch, qexp)
        fid = ctx.kf.quirk_ids(PROPERTY).get('fast-select')
        okI = compare_prefix(exp, trace.normalise(ir["trace"])) < 0 or \
            compare_prefix(run_model(ch, events, quirks=['large-select'])[1], trace.normalise(ir["trace"])) < 0
        if fid and okI:
            if qp and qp[-1] == ('budget',):
                qp = qp[:-1]
            kq = min(len(qp), len(ctrace))
            while kq > 0 and not (qp[kq - 1][0] == 'cfg'):
                kq -= 1
            if ctrace[:kq] == qp[:kq] and kq > 0:
                ctx.known_finding(fid, {"xml": xml, "events": list(events)})
                ctx.count(case_hash(ch, events), False, ['excluded_by_known_finding'])
                return
        i = next((k for k in range(min(len(a), len(b))) if a[k] != b[k]), min(len(a), len(b)))
        raise Failure("trace-mismatch", {"window": {"index": i, "generated_c": [list(map(str, x)) for x in a[max(0, i - 6):i + 6]],
                                                    "interpreter": [list(map(str, x)) for x in b[max(0, i - 6):i + 6]]},
                                         "labels": sorted(labels),
                                         "signature": [str(a[i])[:40] if i < len(a) else None, str(b[i])[:40] if i < len(b) else None]})
    if not budget_cut:
        for v, val in (ir.get("data") or {}).items():
            iv = trace.norm_value(val[1]) if isinstance(val, list) else None
            if v in cdata and iv is not None and cdata[v] != iv:
                raise Failure("data-mismatch", {"var": v, "generated_c": cdata[v], "interpreter": iv, "signature": "data"})
    ns, nt = len(ch.states), len(ch.transitions)
    for name, val in (('states', ns), ('transitions', nt)):
        if val in (7, 8, 9, 15, 16, 17):
            labels.add('%s-at-byte-boundary' % name)
    has_fin = any(s.kind == 'final' and s.parent.kind != 'scxml' for s in ch.states)
    nontrivial = m.micro >= 3 and (bool(labels & {'parallel', 'history-restored', 'history-default'}) or has_fin)
    ctx.count(case_hash(ch, events), nontrivial, labels,
              sample=lambda: {"document": xml, "events": list(events), "generated_c_trace_head": [list(map(str, x)) for x in ctrace[:20]]})


def shard_main(ctx):
    p = ctx.params
    mod = sys.modules[__name__]
    if ctx.shard == 0:
        ctx.replay_witnesses(mod)
        ctx.replay_corpus(mod)
    n = p["charts"] // ctx.nshards + 1
    try:
        o = gen.GenOpts(late_binding=False, local_data=False)
        ctx.run_hypothesis([gen.charts(o, 'lua'), gen.event_histories()], lambda ch, evs: check_case(ctx, ch, evs), n * 2 // 3 + 1, case_repr)
        ctx.run_hypothesis([gen.charts(gen.conflict_profile(), 'lua'), gen.event_histories(5, ['a', 'b'])],
                           lambda ch, evs: check_case(ctx, ch, evs), n * 2 // 3 + 1, case_repr, name="conflict")
        big = gen.GenOpts(late_binding=False, local_data=False, max_states=18, max_depth=4, content=False, data=False, conds=False)
        ctx.run_hypothesis([gen.charts(big, 'lua'), gen.event_histories()], lambda ch, evs: check_case(ctx, ch, evs), n // 3 + 1, case_repr,
                           name="big")
        ctx.run_hypothesis([gen.parallel_final_charts('lua'), gen.event_histories(8, ['a', 'b', 'c', 'a', 'b', 'c', 'leave', 'back'])],
                           lambda ch, evs: check_case(ctx, ch, evs), n // 3 + 1, case_repr, name="pardone")
        ctx.run_hypothesis([gen.charts(gen.completion_profile(), 'lua'), gen.event_histories(4, ['a', 'b'])],
                           lambda ch, evs: check_case(ctx, ch, evs), n // 3 + 1, case_repr, name="completion")
    finally:
        shutil.rmtree(os.path.join(WORK, "scratch", "c04_%d" % os.getpid()), ignore_errors=True)


def replay(ctx, case):
    ch, events = harness.unpack(case["pickle"])
    try:
        check_case(ctx, ch, events)
    except Failure as f:
        return [{"kind": f.kind, "detail": f.detail}]
    finally:
        shutil.rmtree(os.path.join(WORK, "scratch", "c04_%d" % os.getpid()), ignore_errors=True)
    return []


def extra_coverage(results):
    return {"programs": sum(r["evaluations"] for r in results), "disagreements_checked": sum(len(r["failures"]) for r in results)}


if __name__ == "__main__":
    if "--shard" in sys.argv:
        harness.shard_entry(sys.modules[__name__])
