"""C07 - errors become error events, never crashes."""
import sys, os, json, re, glob, shutil, subprocess, time
sys.path.insert(0, os.path.join(os.path.dirname(os.path.abspath(__file__)), "..", "pylib"))
sys.path.insert(0, os.path.dirname(os.path.abspath(__file__)))
import harness, gen, trace, model
from harness import Failure, WORK, VERIF
from chart import *
from chartcase import *
from worker import WorkerCrash, WorkerHang
from hypothesis import strategies as st

PROPERTY = "C07"
LEVEL = "fault_enumeration"
RULE = ("fault stream: generated valid charts in which failing elements (illegal expression in log/assign/if, assignment to an "
        "undeclared location or to a system variable, send with an unsupported type) are injected at random positions of "
        "onentry/onexit/transition/initial- and history-transition blocks, rendered for the lua and promela datamodels, run "
        "under both engines on a generated event history; oracle = reference model with the Recommendation's error rule "
        "(error.execution is placed in the internal queue, the remainder of THAT block is skipped, following blocks and later "
        "events are processed, an erroneous cond counts as false) compared entry by entry, plus no abnormal termination / "
        "sanitizer report / hang. robustness stream: valid documents damaged by text-level mutations (dropped / duplicated / "
        "renamed attributes and elements, dangling and duplicate ids, wrong nesting, huge ids, unknown elements) and run: "
        "only 'no crash, no hang, step() terminates or throws ErrorEvent' is demanded; plus a coverage-guided libFuzzer "
        "campaign on document loading + validation + stepping. non-trivial = a fault was executed and a marker after it "
        "exists / the damaged document still parses as XML; distinct = hash(document, history, engine)")
ASSUMPTIONS = ["only error NAMES and their order are compared, not payloads", "send with an illegal target is not injected: the "
               "Recommendation does not separate error.execution from error.communication there",
               "documents without <scxml> root may throw from fromXML/step (documented contract)"]
BUILDS = (("san", ["worker"]),)


def budget(tier):
    if tier == "thorough":
        return {"faults": 16000, "damaged": 20000, "fuzz_seconds": 600, "min_nontrivial": 4000}
    return {"faults": 1400, "damaged": 1600, "fuzz_seconds": 25, "min_nontrivial": 500}


def fault_positions(ch):
    """labels describing where faults sit"""
    out = set()

    def scan(lst, where):
        for i, x in enumerate(lst):
            if x.kind == 'fault':
                pos = 'first' if i == 0 else ('last' if i == len(lst) - 1 else 'middle')
                out.add("fault-in-%s-%s" % (where, pos))
                out.add("fault-kind-" + x.which)
            if x.kind == 'if':
                for _, b in x.branches:
                    scan(b, where + '-if')
    for s in ch.states:
        for b in s.onentry:
            scan(b, 'onentry')
        for b in s.onexit:
            scan(b, 'onexit')
        for t in s.transitions:
            scan(t.content, {'normal': 'transition', 'initial': 'initial-transition', 'history': 'history-transition'}[t.kind])
    return out


def check_fault_case(ctx, ch, events, engine, dm):
    xml = ch.to_xml(dm)
    m, exp = run_model(ch, events)
    r = run_engine(ctx, xml, engine, events)
    if r.get("exception"):
        raise Failure("exception", {"engine": engine, "datamodel": dm, "exception": r["exception"][:400], "signature": r["exception"][:60]})
    obs = trace.normalise(r["trace"])
    i = compare_prefix(exp, obs)
    labels = set(m.labels) | fault_positions(ch) | {'dm-' + dm, 'engine-' + engine}
    if i >= 0:
        for quirk in ('large-select', 'fast-select'):
            if compare_prefix(run_model(ch, events, quirks=[quirk])[1], obs) < 0:
                ctx.notes['selection-known-finding'] += 1
                ctx.count(case_hash(ch, events) + engine + dm, False, ['excluded_by_known_finding'])
                return
        raise Failure("error-handling-mismatch", {"engine": engine, "datamodel": dm, "window": trace.diff_window(exp, obs, i),
                                                  "signature": [str(exp[i])[:40] if i < len(exp) else None, str(obs[i])[:40] if i < len(obs) else None]})
    executed = [e for e in m.trace if e[0] == 'err']
    # non-trivial: a fault ran and something was observed after it
    nontrivial = False
    if executed:
        idx = m.trace.index(executed[0])
        nontrivial = any(e[0] in ('c', 'e', 'x', 'ev') for e in m.trace[idx + 1:])
        labels.add('fault-executed')
    ctx.count(case_hash(ch, events) + engine + dm, nontrivial, labels,
              sample=lambda: {"document": xml, "events": list(events), "engine": engine,
                              "error_events": [e for e in exp if e[0] == 'ev' and e[1].startswith('error')][:5]})


# ---- robustness: damaged documents -------------------------------------------------------------------------
damage_ops = st.lists(st.tuples(st.sampled_from(['drop_attr', 'dup_id', 'dangling', 'rename_tag', 'swap_parent', 'huge_id', 'unknown_elem',
                                                 'empty_attr', 'del_elem', 'bad_ns', 'dup_elem', 'misplaced_elem', 'misplaced_elem', 'hist_to_final', 'hist_to_final', 'hist_to_final']), st.integers(0, 10 ** 6)),
                      min_size=1, max_size=3)


def damage(xml, ops):
    for op, n in ops:
        tags = list(re.finditer(r'<(state|parallel|final|history|initial|transition|onentry|onexit|log|raise|send|assign|if|data|datamodel)\b[^>]*?(/?)>', xml))
        if not tags:
            break
        t = tags[n % len(tags)]
        txt = t.group(0)
        if op == 'drop_attr':
            attrs = [a for a in re.finditer(r'\s(\w+)="[^"]*"', txt) if a.group(1) != 'vid']   # vid is the harness's own tag
            if attrs:
                a = attrs[n % len(attrs)]
                new = txt[:a.start()] + txt[a.end():]
                xml = xml[:t.start()] + new + xml[t.end():]
        elif op == 'empty_attr':
            attrs = [a for a in re.finditer(r'\s(\w+)="[^"]*"', txt) if a.group(1) != 'vid']
            if attrs:
                a = attrs[n % len(attrs)]
                new = txt[:a.start()] + ' %s=""' % a.group(1) + txt[a.end():]
                xml = xml[:t.start()] + new + xml[t.end():]
        elif op == 'dup_id':
            xml = re.sub(r'(?<![a-z])id="s1"', 'id="s0"', xml, count=1)   # never the harness's own vid="..."
        elif op == 'dangling':
            # a target that does not exist, or one that only exists where a misplaced_elem operator may have put it
            xml = re.sub(r'target="[^"]*"', 'target="%s"' % ['nosuchstate', 'zs', 'zf', 'zp', 'zh', 'zz'][n % 6], xml, count=1)
        elif op == 'rename_tag':
            name = t.group(1)
            other = ['state', 'parallel', 'final', 'history', 'transition', 'onentry', 'log', 'foo'][n % 8]
            xml = xml[:t.start()] + txt.replace('<' + name, '<' + other, 1) + xml[t.end():]
        elif op == 'huge_id':
            xml = re.sub(r'(?<![a-z])id="s0"', 'id="%s"' % ("x" * 5000), xml, count=1)
        elif op == 'unknown_elem':
            xml = xml[:t.start()] + '<frobnicate a="1"><x/></frobnicate>' + xml[t.start():]
        elif op == 'misplaced_elem':
            # a legal SCXML element where it must not be: in front of the chosen element (i.e. as child of whatever contains it)
            what = ['<scxml/>', '<scxml><state id="zz"/></scxml>', '<final id="zf"/>', '<initial><transition target="s0"/></initial>', '<history id="zh"/>',
                    '<transition target="s0"/>', '<onentry><log label="z" expr="1"/></onentry>', '<datamodel><data id="zd" expr="1"/></datamodel>',
                    '<invoke type="scxml"/>', '<donedata/>', '<param name="p" expr="1"/>', '<content>x</content>', '<finalize/>', '<else/>', '<elseif cond="true"/>',
                    '<parallel id="zp"/>', '<state id="zs"><transition event="a" target="s0"/></state>'][n % 17]
            xml = xml[:t.start()] + what + xml[t.start():]
        elif op == 'hist_to_final':
            # the default transition of a history state is pointed at some <final> of the document (legal only if that final
            # is a child / descendant of the history's parent)
            finals = re.findall(r'<final id="([^"]+)"', xml)
            hm = re.search(r'(<history\b[^>]*>\s*<transition\b[^>]*?target=")[^"]*(")', xml)
            if finals and hm:
                xml = xml[:hm.start()] + hm.group(1) + finals[n % len(finals)] + hm.group(2) + xml[hm.end():]
        elif op == 'del_elem':
            if t.group(2) == '/':
                xml = xml[:t.start()] + xml[t.end():]
        elif op == 'dup_elem':
            if t.group(2) == '/':
                xml = xml[:t.start()] + txt + txt + xml[t.end():]
        elif op == 'bad_ns':
            xml = xml.replace('xmlns="http://www.w3.org/2005/07/scxml"', 'xmlns="http://example.invalid/ns"', 1)
        elif op == 'swap_parent':
            xml = xml.replace('<state ', '<final ', 1) if n % 2 else xml.replace('</state>', '</parallel>', 1).replace('<state ', '<parallel ', 1)
    return xml


def check_damaged(ctx, ch, events, ops, engine):
    xml = damage(ch.to_xml('lua'), ops)
    try:
        import xml.etree.ElementTree as ET
        ET.fromstring(xml.encode('utf-8'))
        wellformed = True
    except Exception:
        wellformed = False
    r = run_engine(ctx, xml, engine, events, "validate")   # raises Failure on crash / hang
    labels = ['wellformed' if wellformed else 'not-wellformed', 'threw' if r.get("exception") else 'ran'] + ["op-" + o for o, _ in ops]
    ctx.count(harness.h64(xml, "|".join(events), engine), wellformed, labels,
              sample={"document": xml[:1500], "events": list(events), "outcome": (r.get("exception") or r.get("final"))[:200]})


def run_fuzzer(ctx, seconds, seed):
    binp = os.path.join(WORK, "bin", "fuzz_scxml-fuzz")
    if not os.path.exists(binp):
        ctx.notes['fuzzer_binary_missing'] += 1
        return
    d = os.path.join(WORK, "scratch", "fuzz_scxml_%d" % os.getpid())
    shutil.rmtree(d, ignore_errors=True)
    os.makedirs(os.path.join(d, "corpus"))
    os.makedirs(os.path.join(d, "art"))
    seeds = sorted(glob.glob(os.path.join(WORK, "mirror", "test", "w3c", "lua", "test1*.scxml")))[:12] + \
        sorted(glob.glob(os.path.join(WORK, "mirror", "test", "w3c", "promela", "test3*.scxml")))[:8]
    for i, f in enumerate(seeds):
        shutil.copy(f, os.path.join(d, "corpus", "seed%d.scxml" % i))
    dictf = os.path.join(VERIF, "src", "fuzz", "scxml.dict")
    env = dict(os.environ, ASAN_OPTIONS="detect_leaks=0:abort_on_error=0", UBSAN_OPTIONS="halt_on_error=1", USCXML_NOCACHE_FILES="1")
    r = subprocess.run([binp, "-seed=%d" % (seed % (2 ** 31) or 1), "-max_total_time=%d" % seconds, "-max_len=4096", "-timeout=20",
                        "-rss_limit_mb=3000", "-dict=" + dictf, "-artifact_prefix=" + os.path.join(d, "art") + "/", "-print_final_stats=1",
                        os.path.join(d, "corpus")], stdout=subprocess.PIPE, stderr=subprocess.STDOUT, env=env, cwd=d)
    out = r.stdout.decode("latin-1")
    execs = 0
    for line in out.splitlines():
        if line.startswith("stat::number_of_executed_units:"):
            execs = int(line.split(":")[-1])
    ctx.notes['libfuzzer_execs'] += execs
    ctx.evaluations += execs
    arts = [a for a in glob.glob(os.path.join(d, "art", "*")) if os.path.basename(a).startswith(("crash-", "leak-"))]
    for a in arts[:3]:
        data = open(a, "rb").read()
        ok = 0
        for i in range(3):
            rr = subprocess.run([binp, a], stdout=subprocess.PIPE, stderr=subprocess.STDOUT, env=env)
            if rr.returncode != 0:
                ok += 1
        if ok == 3:
            ctx.failures.append({"kind": "fuzz-crash", "detail": {"stderr": rr.stdout.decode("latin-1")[-2500:],
                                                                "signature": crash_signature(rr.stdout.decode("latin-1"))},
                                 "case": {"fuzz_input_hex": data.hex()}})
    shutil.rmtree(d, ignore_errors=True)


UNREACH_DOC = ('<scxml xmlns="http://www.w3.org/2005/07/scxml" version="1.0" datamodel="null" name="u"><state id="s0" vid="s0"><onentry>%s</onentry>'
               '<transition event="error.communication" target="s1" vid="tc"/><transition event="error.execution" target="s2" vid="tx"/>'
               '<transition event="m" target="s3" vid="tm"/></state><state id="s1" vid="s1"/><state id="s2" vid="s2"/><state id="s3" vid="s3"/></scxml>')
UNREACH_TARGETS = {"#_nosuchinvoke": "error.communication", "#_parent": "error.communication",
                   "#_scxml_00000000-0000-0000-0000-000000000000": "error.communication", "nonsense-target": "error.execution"}


def check_unreachable_send(ctx, target, delay, engine):
    """a <send> whose target cannot be reached - immediately, or only found out when its delay has passed (then the failure
    happens on the timer thread): the error event is queued, the process lives, the interpreter keeps running"""
    send = '<send vid="u0" event="t" target="%s"%s/><raise vid="r0" event="nothing"/>' % (target, ' delay="%dms"' % delay if delay else '')
    r = run_engine(ctx, UNREACH_DOC % send, engine, [], "idlewait=%d" % (delay + 70))
    if r.get("exception"):
        raise Failure("exception", {"exception": r["exception"][:300], "signature": "unreachable-exception"})
    evs = [e[1] for e in r["trace"] if e[0] == 'ev']
    want = UNREACH_TARGETS[target]
    if want not in evs:
        raise Failure("error-event-missing", {"target": target, "delay_ms": delay, "engine": engine, "expected": want, "events_processed": evs,
                                              "signature": ["unreachable", want, "delayed" if delay else "immediate"]})
    ctx.count(harness.h64("unreach", target, str(delay), engine), True, ['unreachable-send', 'delayed' if delay else 'immediate'],
              sample={"target": target, "delay_ms": delay, "engine": engine, "events_processed": evs})


def shard_main(ctx):
    p = ctx.params
    n = ctx.nshards
    mod = sys.modules[__name__]
    if ctx.shard == 0:
        ctx.replay_corpus(mod)
    if ctx.shard >= n - 3:
        run_fuzzer(ctx, p["fuzz_seconds"], harness.derive_seed(ctx.seed, "C07fuzz", ctx.shard))
        return
    g = n - 3
    o = gen.GenOpts(faults=True, max_states=7)
    for dm in ('lua', 'promela'):
        od = o if dm == 'lua' else gen.GenOpts(faults=True, max_states=7, late_binding=False, in_conds=True)
        for engine in ('large', 'fast'):
            ctx.run_hypothesis([gen.charts(od, dm), gen.event_histories()],
                               lambda ch, evs, engine=engine, dm=dm: check_fault_case(ctx, ch, evs, engine, dm), p["faults"] // (4 * g) + 1,
                               lambda ch, evs, engine=engine, dm=dm: dict(case_repr(ch, evs), engine=engine, dm=dm), name="fault" + dm + engine)
    ctx.run_hypothesis([st.sampled_from(sorted(UNREACH_TARGETS)), st.sampled_from([0, 0, 3, 10, 25]), st.sampled_from(['large', 'fast'])],
                       lambda tg, d, e: check_unreachable_send(ctx, tg, d, e), 6, lambda tg, d, e: {"unreachable": [tg, d, e]}, name="unreachable")
    for engine in ('large', 'fast'):
        ctx.run_hypothesis([gen.charts(gen.GenOpts(max_states=6), 'lua'), gen.event_histories(3), damage_ops],
                           lambda ch, evs, ops, engine=engine: check_damaged(ctx, ch, evs, ops, engine), p["damaged"] // (2 * g) + 1,
                           lambda ch, evs, ops, engine=engine: dict(case_repr(ch, evs), ops=ops, engine=engine), name="damaged" + engine)


def replay(ctx, case):
    try:
        if "fuzz_input_hex" in case:
            r = run_engine(ctx, bytes.fromhex(case["fuzz_input_hex"]).decode('latin-1'), "large", [], "validate")
            return []
        if "unreachable" in case:
            check_unreachable_send(ctx, *case["unreachable"])
            return []
        ch, events = harness.unpack(case["pickle"])
        if "ops" in case:
            check_damaged(ctx, ch, events, [tuple(x) for x in case["ops"]], case.get("engine", "large"))
        else:
            check_fault_case(ctx, ch, events, case.get("engine", "large"), case.get("dm", "lua"))
    except Failure as f:
        return [{"kind": f.kind, "detail": f.detail}]
    return []


def main(tier, seed):
    builds = [("san", ["worker"]), ("fuzz", ["fuzz_scxml"])]
    return harness.run_check(sys.modules[__name__], tier, seed, builds=builds)


if __name__ == "__main__":
    if "--shard" in sys.argv:
        harness.shard_entry(sys.modules[__name__])
