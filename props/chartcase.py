"""Shared code for the chart-stream properties (C01, C02, C03, C13, ...): run model + engines on a case."""
import sys, os
import model, trace, gen
from chart import *
from harness import Failure, pack, unpack, h64
from worker import WorkerCrash, WorkerHang

MODEL_MICRO = 40
ENGINE_STEPS = 400


def run_engine(ctx, xml, engine, events, opts="", variant="san"):
    """-> (raw result dict) ; raises Failure on crash/hang"""
    w = ctx.worker(variant)
    try:
        return w.call("run", xml, engine, "\n".join(events), "maxsteps=%d %s" % (ENGINE_STEPS, opts))
    except WorkerCrash as e:
        raise Failure("crash", {"engine": engine, "stderr": e.stderr[-3000:], "signature": crash_signature(e.stderr)})
    except WorkerHang as e:
        raise Failure("hang", {"engine": engine, "signature": "hang"})


def crash_signature(stderr):
    """first in-tree frame of a sanitizer report, or the signal line"""
    import re
    for line in stderr.splitlines():
        m = re.search(r'#\d+ 0x[0-9a-f]+ in (\S+) .*?/(src/uscxml/[^ :]+|contrib/src/[^ :]+)', line)
        if m:
            return "%s@%s" % (m.group(1), m.group(2))
    for line in stderr.splitlines():
        if 'ERROR' in line or 'runtime error' in line:
            return line.strip()[:200]
    return "crash"


def crash_excerpt(stderr, n=3500):
    """the part of a worker's stderr that starts at the sanitizer's first report line (frames shortened)"""
    import re
    i = min([x for x in (stderr.find('ERROR: '), stderr.find('runtime error')) if x >= 0] or [max(0, len(stderr) - n)])
    i = max(0, stderr.rfind('\n', 0, i))
    txt = re.sub(r'std::__cxx11::basic_string<char, std::char_traits<char>, std::allocator<char> >', 'std::string', stderr[i:])
    txt = "\n".join(l[:260] for l in txt.splitlines())
    return txt[:n]


def run_model(ch, events, **kw):
    m = model.Model(ch, max_micro=MODEL_MICRO, **kw)
    t = trace.model_view(m.run(list(events)))
    return m, t


def compare_prefix(exp, obs):
    """exp may end in ('budget',): then compare only up to the last complete microstep both have.
    -> index of first difference or -1"""
    if exp and exp[-1] == ('budget',):
        exp = exp[:-1]
        n = min(len(exp), len(obs))
        # cut back to the last cfg entry in the shorter prefix
        k = n
        while k > 0 and exp[k - 1][0] != 'cfg':
            k -= 1
        return trace.first_diff(exp[:k], obs[:k])
    return trace.first_diff(exp, obs)


def case_repr(ch, events):
    return {"xml": ch.to_xml(), "events": list(events), "pickle": pack((ch, list(events)))}


def case_hash(ch, events):
    return h64(ch.to_xml(), "\n".join(events))


def nontrivial_c01(m):
    feats = {'parallel', 'history-restored', 'history-default', 'multi-target', 'internal', 'targetless',
             'preemption', 'done-state'}
    return m.micro >= 3 and bool(m.labels & feats)
