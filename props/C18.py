"""C18 - the generated VHDL micro-step logic computes the specified next configuration."""
import sys, os, json, re, itertools
sys.path.insert(0, os.path.join(os.path.dirname(os.path.abspath(__file__)), "..", "pylib"))
sys.path.insert(0, os.path.dirname(os.path.abspath(__file__)))
import harness, gen, model
from harness import Failure
from chart import *
from chartcase import case_repr, crash_signature
from worker import WorkerCrash, WorkerHang
from hypothesis import strategies as st

PROPERTY = "C18"
LEVEL = "translation_validation"
RULE = ("programs = charts of the VHDL back-end's fragment (no history, no datamodel; state/parallel/final/initial nesting, "
        "internal/targetless/multi-target transitions, conditions as free inputs, event names a/b/c/ab and descriptors incl. "
        "'*') from the exhaustive small-chart enumerator and from Hypothesis. For each chart the concurrent signal assignments "
        "of the emitted VHDL (in_optimal_transition_set_*, in_exit_set_*, in_complete_entry_set(_up)_*, in_entry_set_*, "
        "state_next_*) are parsed into expression DAGs and evaluated for EVERY legal configuration of the chart (enumerated "
        "from the tree, capped at 400 per chart by sampling) x every event of the document and the spontaneous step x all "
        "2^k valuations of the k condition inputs (k <= 5, sampled above); the resulting next configuration must equal the "
        "reference model's single microstep from that configuration under the transpilers' conflict relation. non-trivial = "
        "the situation enables >= 1 transition; distinct = distinct (document, configuration, input vector)")
ASSUMPTIONS = ["fragment of the back-end: no history, no datamodel, default completion by a single-child initial attribute or the "
               "first child (no <initial> element, no deep or multi-target initial attribute - the generator has no equations for them)",
               "VHDL 'and/or/not' on '0'/'1' mean what they say; the clocked processes around the equations are not simulated (no "
               "VHDL simulator in the image)", "state_next_0 (the root, driven by completed_sig) is not compared",
               "event names need no escaping, so signal names are event_<name>_sig"]
BUILDS = (("san", ["worker"]),)


def budget(tier):
    if tier == "thorough":
        return {"exh_states": 5, "random": 3000, "min_nontrivial": 20000}
    return {"exh_states": 4, "random": 300, "min_nontrivial": 2000}


# ---- equation parser / evaluator ------------------------------------------------------------------------
TOKEN = re.compile(r"\s*(<=|\(|\)|;|'0'|'1'|[A-Za-z_][A-Za-z_0-9]*)")


def parse_equations(text):
    """-> {signal: expr}; expr = ('c',0|1) | ('s',name) | ('not',e) | ('and',[e..]) | ('or',[e..])"""
    start = text.index("-- optimal transition set selection")
    body = text[start:]
    # strip comments
    body = "\n".join(l.split("--")[0] for l in body.splitlines())
    eqs = {}
    for m in re.finditer(r"([A-Za-z_][A-Za-z_0-9]*)\s*<=\s*([^;]*);", body):
        name, rhs = m.group(1), m.group(2)
        if not re.match(r"(in_optimal_transition_set_\d+_sig|optimal_transition_set_combined_sig|spontaneous_active|in_exit_set_\d+_sig|"
                        r"in_complete_entry_set_up_\d+_sig|in_complete_entry_set_\d+_sig|in_entry_set_\d+_sig|state_next_\d+_sig)$", name):
            continue
        toks = TOKEN.findall(rhs)
        if "".join(toks).replace(" ", "") != re.sub(r"\s+", "", rhs):
            raise ValueError("untokenisable equation for %s: %r" % (name, rhs[:80]))
        pos = [0]

        def peek():
            return toks[pos[0]] if pos[0] < len(toks) else None

        def eat():
            t = toks[pos[0]]
            pos[0] += 1
            return t

        def p_or():
            items = [p_and()]
            while peek() == 'or':
                eat()
                items.append(p_and())
            return items[0] if len(items) == 1 else ('or', items)

        def p_and():
            items = [p_not()]
            while peek() == 'and':
                eat()
                items.append(p_not())
            return items[0] if len(items) == 1 else ('and', items)

        def p_not():
            if peek() == 'not':
                eat()
                return ('not', p_not())
            return p_atom()

        def p_atom():
            t = eat()
            if t == '(':
                e = p_or()
                if eat() != ')':
                    raise ValueError("unbalanced parentheses in %s" % name)
                return e
            if t == "'0'":
                return ('c', 0)
            if t == "'1'":
                return ('c', 1)
            if t in ('and', 'or', ')', ';', '<='):
                raise ValueError("unexpected token %s in %s" % (t, name))
            return ('s', t)
        e = p_or()
        if pos[0] != len(toks):
            raise ValueError("trailing tokens in %s" % name)
        if name in eqs:
            raise ValueError("signal %s assigned twice" % name)
        eqs[name] = e
    return eqs


class Loop(Exception):
    pass


def evaluate(eqs, inputs, wanted):
    memo = {}
    busy = set()

    def ev(e):
        k = e[0]
        if k == 'c':
            return e[1]
        if k == 's':
            n = e[1]
            if n in inputs:
                return inputs[n]
            if n in memo:
                return memo[n]
            if n not in eqs:
                raise KeyError(n)
            if n in busy:
                raise Loop(n)
            busy.add(n)
            v = ev(eqs[n])
            busy.discard(n)
            memo[n] = v
            return v
        if k == 'not':
            return 1 - ev(e[1])
        if k == 'and':
            return int(all(ev(x) for x in e[1]))
        return int(any(ev(x) for x in e[1]))
    try:
        return {w: ev(('s', w)) for w in wanted}
    except Loop:
        return evaluate_fixpoint(eqs, inputs, wanted)


def evaluate_fixpoint(eqs, inputs, wanted):
    """the equation network is structurally cyclic (an eventful transition is masked by 'spontaneous_active', which in turn
    depends on transitions that are suppressed by the eventful one): evaluate with three-valued (Kleene) logic up to the least
    fixpoint. A wanted signal that stays unknown is a genuine combinational loop for this input vector."""
    val = {n: None for n in eqs}

    def ev(e):
        k = e[0]
        if k == 'c':
            return e[1]
        if k == 's':
            n = e[1]
            if n in inputs:
                return inputs[n]
            if n not in val:
                return None   # not part of the parsed network (e.g. completed_sig): unknown
            return val[n]
        if k == 'not':
            v = ev(e[1])
            return None if v is None else 1 - v
        vs = [ev(x) for x in e[1]]
        if k == 'and':
            if any(v == 0 for v in vs):
                return 0
            return None if any(v is None for v in vs) else 1
        if any(v == 1 for v in vs):
            return 1
        return None if any(v is None for v in vs) else 0
    changed = True
    while changed:
        changed = False
        for n, e in eqs.items():
            if val[n] is None:
                v = ev(e)
                if v is not None:
                    val[n] = v
                    changed = True
    out = {}
    for w in wanted:
        if val[w] is None:
            raise Loop(w)
        out[w] = val[w]
    return out


# ---- oracle ------------------------------------------------------------------------------------------------
def legal_configs(s):
    """all legal configurations of the subtree rooted at s (as frozensets of State), s included"""
    if s.is_atomic():
        return [frozenset([s])]
    kids = s.proper_children()
    if s.kind == 'parallel':
        out = [frozenset([s])]
        for c in kids:
            out = [a | b for a in out for b in legal_configs(c)]
            if len(out) > 5000:
                out = out[:5000]
        return out
    out = []
    for c in kids:
        out.extend(frozenset([s]) | x for x in legal_configs(c))
    return out


def expected_next(ch, config, event, condvals, spontaneous_en):
    m = model.Model(ch, quirks=['fast-select'])
    m.configuration = set(config)
    m.cond = lambda t: condvals.get(t.vid, True)
    ts = []
    if spontaneous_en:
        ts = m.select(None)
    if not ts and event is not None:
        ts = m.select(event)
    if ts:
        m.exit_states(ts)
        m.enter_states(ts)
    return set(s.id for s in m.configuration), bool(ts), len(ts)


def check_chart(ctx, ch, sample_rnd):
    xml = ch.to_xml('null')
    try:
        r = ctx.worker().call("transform", xml, "vhdl")
    except WorkerCrash as e:
        raise Failure("crash", {"stderr": e.stderr[-2500:], "signature": crash_signature(e.stderr)})
    except WorkerHang:
        raise Failure("hang", {"signature": "hang"})
    if r.get("exception"):
        raise Failure("transform-exception", {"exception": r["exception"], "signature": r["exception"][:60]})
    text = r["text"]
    try:
        eqs = parse_equations(text)
    except ValueError as e:
        raise Failure("unparsable-equations", {"error": str(e), "signature": "parse"})
    # index maps from the annotated document (documentOrder / postFixOrder), independent of C05's checks
    import xml.etree.ElementTree as ET
    ann = ET.fromstring(r["annotated"].replace('encoding="UTF-16"', 'encoding="UTF-8"').encode("utf-8"))
    sidx, tidx = {}, {}
    for el in ann.iter():
        tag = el.tag.split('}')[-1]
        if tag in ('scxml', 'state', 'parallel', 'final', 'initial', 'history'):
            sidx[el.get('vid')] = int(el.get('documentOrder'))
        elif tag == 'transition':
            tidx[el.get('vid')] = int(el.get('postFixOrder'))
    events = sorted(set(d for t in ch.transitions for d in t.events if d != '*'))
    conds = [t for t in ch.transitions if t.cond is not None and t.kind == 'normal']
    configs = [frozenset([ch.root]) | c for top in ch.root.proper_children() for c in legal_configs(top)]
    if len(configs) > 400:
        configs = sample_rnd.sample(configs, 400)
    valuations = list(itertools.product([0, 1], repeat=len(conds))) if len(conds) <= 5 else \
        [tuple(sample_rnd.randint(0, 1) for _ in conds) for _ in range(32)]
    proper = [s for s in ch.states if s.is_proper() and s.kind != 'scxml']
    wanted = ["state_next_%d_sig" % sidx[s.id] for s in proper]
    n_sit = 0
    for config in configs:
        for val in valuations:
            condvals = {t.vid: bool(v) for t, v in zip(conds, val)}
            # situations: the spontaneous step (no event signal, spontaneous_en = 1) and the event step (exactly one event
            # signal, spontaneous_en = 0). An asserted event signal together with spontaneous_en = 1 is not evaluated: whether
            # the clocked processes can produce it cannot be decided without simulating them.
            for event, sp in [(None, 1)] + [(e, 0) for e in events]:
                inputs = {"spontaneous_en": sp, "in_complete_entry_set_0_sig": 0}
                for s in ch.states:
                    inputs["state_active_%d_sig" % sidx[s.id]] = int(s in config)
                for e in events:
                    inputs["event_%s_sig" % e] = int(e == event)
                for t in ch.transitions:
                    inputs["transition_condition_fulfilled_%d_i" % tidx[t.vid]] = int(condvals.get(t.vid, True))
                try:
                    got = evaluate(eqs, inputs, wanted)
                except Loop as l:
                    raise Failure("combinational-loop", {"signal": str(l), "signature": "loop"})
                except KeyError as k:
                    raise Failure("undefined-signal", {"signal": str(k), "signature": ["undefined", str(k)[:30]]})
                exp, enabled, nts = expected_next(ch, config, event, condvals, sp)
                got_cfg = set(s.id for s in proper if got["state_next_%d_sig" % sidx[s.id]]) | {'#root'}
                n_sit += 1
                if got_cfg != exp:
                    raise Failure("next-state-mismatch", {
                        "configuration": sorted(s.id for s in config), "event": event, "spontaneous_en": sp,
                        "conditions": {k: v for k, v in condvals.items()}, "expected_next": sorted(exp), "vhdl_next": sorted(got_cfg),
                        "signature": ["next", "missing" if exp - got_cfg else "extra"]})
                labels = []
                if nts >= 2:
                    labels.append('two-or-more-transitions')
                ctx.count(harness.h64(xml, ",".join(sorted(s.id for s in config)), str(event), str(sp), str(val)), enabled,
                          labels + (['spontaneous'] if event is None else ['event-step']),
                          sample=lambda: {"document": xml, "configuration": sorted(s.id for s in config), "event": event,
                                          "conditions": condvals, "next": sorted(exp)})


def vhdl_opts():
    return gen.GenOpts(max_states=8, max_depth=3, history=False, content=False, data=False, late_binding=False, done_events=False,
                       initial_elem=False, deep_initial=False,
                       descriptors=[['a'], ['b'], ['c'], ['ab'], ['*'], ['a', 'b']], hist_targets=False)


def shard_main(ctx):
    import random
    p = ctx.params
    mod = sys.modules[__name__]
    if ctx.shard == 0:
        ctx.replay_witnesses(mod)
        ctx.replay_corpus(mod)
    rnd = random.Random(harness.derive_seed(ctx.seed, "C18", ctx.shard))
    try:
        for ch in gen.enum_small_charts(p["exh_states"], 2, ctx.shard, ctx.nshards, datamodel='null'):
            check_chart(ctx, ch, rnd)
        ctx.exhaustive = True
    except Failure as f:
        ctx.failures.append({"kind": f.kind, "detail": f.detail, "case": case_repr(ch, [])})
        ctx.exhaustive = False
        return
    rnd2 = random.Random(1)
    ctx.run_hypothesis([gen.charts(vhdl_opts(), 'null')], lambda ch: check_chart(ctx, ch, random.Random(7)), p["random"] // ctx.nshards + 1,
                       lambda ch: case_repr(ch, []))


def replay(ctx, case):
    import random
    ch, _ = harness.unpack(case["pickle"])
    try:
        check_chart(ctx, ch, random.Random(7))
    except Failure as f:
        return [{"kind": f.kind, "detail": f.detail}]
    return []


def extra_coverage(results):
    return {"programs": sum(r["classes"].get('spontaneous', 0) for r in results), "disagreements_checked": sum(len(r["failures"]) for r in results),
            "explanation": "programs = number of (chart, configuration, condition valuation) triples evaluated on the spontaneous step; evaluations counts every situation"}


if __name__ == "__main__":
    if "--shard" in sys.argv:
        harness.shard_entry(sys.modules[__name__])
