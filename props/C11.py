"""C11 - invoked sessions start, communicate and stop as specified."""
import sys, os, json
sys.path.insert(0, os.path.join(os.path.dirname(os.path.abspath(__file__)), "..", "pylib"))
sys.path.insert(0, os.path.dirname(os.path.abspath(__file__)))
import harness
from harness import Failure
from chartcase import crash_signature, crash_excerpt
from worker import WorkerCrash, WorkerHang
from hypothesis import strategies as st

PROPERTY = "C11"
LEVEL = "exploration"
RULE = ("cases = (parent chart with 1-2 <invoke type=scxml> in one state, child charts, timed script, schedule): each child finishes "
        "early (eventless to its top-level final), late (delayed self-send of 5-60 ms) or never; it sends 0-3 events to #_parent on "
        "entry, echoes x.<n> events it gets via #_<invokeid>, optionally holds a delayed send to #_parent, optionally invokes a never-finishing session of its own (three levels); the parent leaves the "
        "invoking state at a generated time (never / to a sibling / external self-transition = exit + re-entry in one microstep / to "
        "its top-level final), optionally comes back (same id re-invoked), reacts to done.invoke by staying or moving; autoforward "
        "and <finalize> per invoke; optionally the invoking state's <onexit> sends to #_<invokeid> (must still succeed: content runs before "
        "the invocation is cancelled); real threads (one per child, timer threads), interleaving perturbed at the USCXML_VERIF points "
        "(event-queue actions vector; forced: child thread parked between reaching FINISHED and the _isActive test while the parent "
        "leaves; parent parked on entry of USCXMLInvoker::stop). Oracle = invariants over the merged monitor trace (monitor copied "
        "to invokers, records serialised under one lock, tagged with session id and a monotonic timestamp): (1) beforeInvoking "
        "only for an inactive invoke of an active state, beforeUninvoking only for an active one, every exit of the invoking state "
        "is followed by exactly one uninvoke before the macrostep ends, every macrostep ends with all invokes of active states "
        "started; (2) #done.invoke.<id> processed by the parent <= #child instances that entered their top-level final, and >= "
        "those that did so well (150 ms) before being cancelled; (3) no record of a child session after its afterUninvoking, and no "
        "delayed child event due after that is ever processed by the parent; (4) events from a child carry its invokeid and origin, "
        "arrive at most once and in the child's send order, and exactly once when the send completed before a sentinel event was fed that the "
        "parent processed (FIFO, no timing); #_<id> events "
        "reach only that child, in order, at most once; autoforwarded externals are, per child, an in-order duplicate-free "
        "sub-sequence of what the parent processed while the invoke was active, and nothing reaches a child without autoforward; "
        "(5) <finalize> content is executed exactly for the events with that invokeid while the invoke is active, before the "
        "transition for the event is taken; (6) no crash, no deadlock (30 s watchdog), destruction < 2 s. non-trivial = the invoking "
        "state was exited while a child was alive and >= 1 event went each way; distinct = hash(case)")
ASSUMPTIONS = ["timing enters only as generous margins (150 ms) for the 'must have arrived' clauses of done.invoke, #_<id> and autoforward; child->parent uses a FIFO sentinel; at-most-once / order / after-cancel clauses "
               "use the trace order, which the recording lock makes total",
               "the chart family is parametric (not arbitrary chart pairs): the property's clauses concern the invoke machinery, which "
               "the family exercises in all combinations of child life-time x parent exit time x traffic"]
BUILDS = (("san", ["worker"]),)
MARGIN_US = 150000


def budget(tier):
    if tier == "thorough":
        return {"cases": 4000, "min_nontrivial": 600}
    return {"cases": 1600, "min_nontrivial": 150}


NS = 'xmlns="http://www.w3.org/2005/07/scxml" version="1.0" datamodel="null"'


def child_doc(k, c, xnames):
    """k: 1-based child number, c: spec dict, xnames: x.<n> names the parent may send to this child"""
    p = "c%d" % k
    onentry = "".join('<send vid="%s_s%d" target="#_parent" event="%s.%d"/>' % (p, i, p, i) for i in range(c["k0"]))
    if c["mode"] == "late":
        onentry += '<send vid="%s_tick" event="tick" delay="%dms"/>' % (p, c["D"])
    if c["late"] is not None:
        onentry += '<send vid="%s_late" target="#_parent" event="%s.late" delay="%dms"/>' % (p, p, c["late"])
    trans = ""
    if c["echo"]:
        for n in xnames:
            trans += '<transition event="%s" vid="%s_t%s"><send vid="%s_e%s" target="#_parent" event="%s.e%s"/></transition>' % (n, p, n[2:], p, n[2:], p, n[2:])
    if c["mode"] == "late":
        trans += '<transition event="tick" target="cf" vid="%s_tt"/>' % p
    elif c["mode"] == "early":
        trans += '<transition target="cf" vid="%s_te"/>' % p
    grand = ""
    if c.get("grandchild"):
        # the child invokes a session of its own that never finishes: cancelling the child has to tear down both
        grand = ('<invoke vid="%s_ginv" id="g%d" type="scxml"><content><scxml %s name="grand%d"><state id="g0" vid="g%d_g0">'
                 '<transition event="never" vid="g%d_t"/></state></scxml></content></invoke>' % (p, k, NS, k, k, k))
    return ('<scxml %s name="child%d"><state id="c0" vid="%s_c0"><onentry>%s</onentry>%s%s</state><final id="cf" vid="%s_cf"/></scxml>'
            % (NS, k, p, onentry, grand, trans, p))


def xnames_for(case, k):
    out = []
    for g in range(len(case["go"])):
        if k == 1:
            out += ["x.%d0" % (g + 1), "x.%d2" % (g + 1)]
        else:
            out += ["x.%d1" % (g + 1)]
    return out


def parent_doc(case):
    ch = case["children"]
    inv = ""
    for k, c in enumerate(ch, 1):
        fin = '<finalize><log vid="fin%d" label="FIN%d"/></finalize>' % (k, k) if c["finalize"] else ""
        inv += '<invoke vid="inv%d" id="inv%d" type="scxml" autoforward="%s"><content>%s</content>%s</invoke>' % (
            k, k, "true" if c["autoforward"] else "false", child_doc(k, c, xnames_for(case, k)), fin)
    tr = ""
    lv = case["leave"]
    if lv is not None:
        tgt = {"exit": "p1", "self": "p0", "final": "pf"}[lv[1]]
        tr += '<transition event="leave" target="%s" vid="t_leave"/>' % tgt
    for k in range(1, len(ch) + 1):
        tr += '<transition event="done.invoke.inv%d" vid="t_done%d"%s/>' % (k, k, ' target="p2"' if case["on_done"] == "move" else "")
        tr += '<transition event="c%d" vid="t_c%d"/>' % (k, k)
    for g in range(len(case["go"])):
        sends = '<send vid="go%d0" target="#_inv1" event="x.%d0"/>' % (g + 1, g + 1)
        if len(ch) > 1:
            sends += '<send vid="go%d1" target="#_inv2" event="x.%d1"/>' % (g + 1, g + 1)
        sends += '<send vid="go%d2" target="#_inv1" event="x.%d2"/>' % (g + 1, g + 1)
        tr += '<transition event="go.%d" vid="t_go%d">%s</transition>' % (g + 1, g + 1, sends)
    tr += '<transition event="f" vid="t_f"/>'
    ox = ""
    if case.get("onexit_send"):
        # W3C exitStates(): a state's onexit content runs before its invocations are cancelled, so this event can still be handed
        # to the child (whether the child gets round to processing it before it is cancelled is open)
        ox = '<onexit><send vid="ox0" target="#_inv1" event="x.bye"/></onexit>'
    return ('<scxml %s name="parent"><state id="p0" vid="p0">%s%s%s</state><state id="p1" vid="p1"><transition event="back" target="p0" vid="t_back"/>'
            '</state><state id="p2" vid="p2"/><final id="pf" vid="pf"/></scxml>' % (NS, ox, inv, tr))


def script_for(case):
    lines = []
    for g, t in enumerate(case["go"]):
        lines.append((t, "go.%d" % (g + 1)))
    for i, t in enumerate(case["f"]):
        lines.append((t, "f.%d" % (i + 1)))
    lv = case["leave"]
    if lv is not None and case["forced"] != "run.finished":
        lines.append((lv[0], "leave"))
        if lv[1] == "exit" and case["back"] is not None:
            lines.append((lv[0] + case["back"], "back"))
    lines.sort(key=lambda x: x[0])
    return lines


def until_for(case):
    lines = script_for(case)
    last = max([t for t, _ in lines] + [0])
    lifetimes = [c["D"] for c in case["children"] if c["mode"] == "late"] + [c["late"] for c in case["children"] if c["late"] is not None]
    return max([last] + lifetimes) + 260


def call(ctx, *args):
    try:
        return ctx.worker().call(*args, timeout=30)
    except WorkerCrash as e:
        raise Failure("crash", {"stderr": crash_excerpt(e.stderr), "signature": crash_signature(e.stderr)})
    except WorkerHang:
        raise Failure("deadlock-or-hang", {"signature": "hang"})


class Inst(object):
    def __init__(self, k, bi_pos, bi_ts):
        self.k, self.bi_pos, self.bi_ts = k, bi_pos, bi_ts
        self.ai_pos = self.bu_pos = self.au_pos = None
        self.bu_ts = self.au_ts = None
        self.session = None
        self.fin_ts = None
        self.sent = []        # (name, pos, ts) immediate sends to the parent
        self.late_sent_ts = None
        self.recv = []        # names processed by the child
        self.last_pos = None


def check_trace(case, tr, end_ts):
    ch = case["children"]

    def bad(msg, pos=None, **kw):
        d = dict(kw, message=msg, signature=msg.split(':')[0])
        if pos is not None:
            d["window"] = [x for x in tr[max(0, pos - 10):pos + 4]]
        raise Failure("invoke-protocol-violated", d)

    insts = {k: [] for k in range(1, len(ch) + 1)}
    active = {}
    p0_active = False
    pending_cancel = {}
    sessions = {}             # session id -> Inst
    ignored = set()
    parent_end_ts = end_ts
    parent_events = []        # (pos, name, invokeid, origin, ts)
    fin_runs = {k: [] for k in insts}
    parent_seq = []           # parent-side records (pos, rec)
    for pos, e in enumerate(tr):
        k0 = e[0]
        if k0 in ('log', 'fed', 'fed-on-park', 'destroyed', 'st', 'cfg'):
            continue
        sess, ts = e[-2], e[-1]
        if sess == '':
            parent_seq.append((pos, e))
            if k0 == 'be' and e[1] == 'p0':
                p0_active = True
            elif k0 == 'bx' and e[1] == 'p0':
                p0_active = False
                for k in list(active):
                    pending_cancel[k] = pos
            elif k0 == 'bi':
                k = int(e[1][3:])
                if k in active:
                    bad("invoke started twice: %s while active" % e[1], pos)
                if not p0_active:
                    bad("invoke started: %s while its state is not active" % e[1], pos)
                if e[2] != "inv%d" % k:
                    bad("invoke id: expected inv%d, got %s" % (k, e[2]), pos)
                active[k] = Inst(k, pos, ts)
                insts[k].append(active[k])
            elif k0 == 'ai':
                k = int(e[1][3:])
                if k in active:
                    active[k].ai_pos = pos
            elif k0 == 'bu':
                k = int(e[1][3:])
                if k not in active:
                    bad("uninvoke without active invocation: %s" % e[1], pos)
                active[k].bu_pos, active[k].bu_ts = pos, ts
            elif k0 == 'au':
                k = int(e[1][3:])
                if k not in active or active[k].bu_pos is None:
                    bad("afterUninvoking without beforeUninvoking: %s" % e[1], pos)
                active[k].au_pos, active[k].au_ts = pos, ts
                del active[k]
                pending_cancel.pop(k, None)
            elif k0 == 'stable':
                if pending_cancel:
                    kk = sorted(pending_cancel)[0]
                    bad("invoking state exited but invocation not cancelled: inv%d still running at the end of the macrostep" % kk, pending_cancel[kk])
                if p0_active:
                    for k in insts:
                        if k not in active:
                            bad("macrostep ended with the invoking state active but invoke not started: inv%d" % k, pos)
            elif k0 == 'bcomp':
                # a finished parent had its last chance to take an event when it dequeued the one that made it finish
                parent_end_ts = parent_events[-1][4] if parent_events else ts
            elif k0 == 'ev':
                parent_events.append((pos, e[1], e[-5], e[-4], ts))
            elif k0 == 'bc' and e[1].startswith('fin'):
                fin_runs[int(e[1][3:])].append(pos)
        else:
            sid = sess[1:]
            if sid in ignored:
                continue
            inst = sessions.get(sid)
            if inst is None:
                # attribute the session to the newest instance of the child with this vid prefix; the first records of a
                # session (bm, be #root) carry no vid and are skipped
                vid = e[1] if k0 not in ('ev', 'bm', 'am', 'stable', 'bcomp', 'acomp') else None
                if vid is not None and vid.startswith('g') and '_' in vid:
                    ignored.add(sid)      # a grandchild (invoked by a child): only its existence matters (teardown)
                    continue
                if vid is None or not vid.startswith('c') or '_' not in vid:
                    continue
                k = int(vid[1:vid.index('_')])
                cands = [i for i in insts[k] if i.session is None]
                if not cands:
                    bad("child session without a beforeInvoking: %s" % sid, pos)
                inst = cands[0]
                inst.session = sid
                sessions[sid] = inst
            inst.last_pos = pos
            if inst.au_pos is not None:
                bad("child active after its cancellation returned: record of inv%d after afterUninvoking" % inst.k, pos)
            p = "c%d_" % inst.k
            if k0 == 'be' and e[1] == p + 'cf':
                inst.fin_ts = ts
            elif k0 == 'ac' and e[1].startswith(p + 's'):
                inst.sent.append(("c%d.%s" % (inst.k, e[1][len(p) + 1:]), pos, ts))
            elif k0 == 'ac' and e[1].startswith(p + 'e'):
                inst.sent.append(("c%d.e%s" % (inst.k, e[1][len(p) + 1:]), pos, ts))
            elif k0 == 'ac' and e[1] == p + 'late':
                inst.late_sent_ts = ts
            elif k0 == 'ev':
                inst.recv.append((e[1], pos, ts))
    # sessions whose first records could not be attributed (two children started together) do not matter for the clauses below
    by_session = {"#_scxml_" + i.session: i for k in insts for i in insts[k] if i.session}

    # (1b) onexit content of the invoking state runs before its invocations are cancelled; a send to the child from there succeeds
    if case.get("onexit_send"):
        for pos, e in parent_seq:
            if e[0] == 'bc' and e[1] == 'ox0':
                i1 = [i for i in insts[1] if i.bi_pos < pos and (i.au_pos is None or i.au_pos > pos or (i.bu_pos is not None and i.bu_pos < pos))]
                for i in insts[1]:
                    if i.bi_pos < pos and i.bu_pos is not None and i.bu_pos < pos and (i.au_pos is None or True):
                        # the instance that was active when the state was exited was already being cancelled
                        nxt = [j for j in insts[1] if j.bi_pos > i.bi_pos]
                        if not nxt or nxt[0].bi_pos > pos:
                            if not any(q[0] == 'ax' and q[1] == 'p0' and i.bu_pos < qp < pos for qp, q in parent_seq):
                                bad("invocation cancelled before the onexit content of its state ran: inv1", pos)
        for pe in parent_events:
            if pe[1] == 'error.communication':
                bad("send to #_inv1 from the onexit block of the invoking state failed: error.communication", pe[0])
    # (2) done.invoke
    for k in insts:
        done = [pe for pe in parent_events if pe[1] == "done.invoke.inv%d" % k]
        n_fin = sum(1 for i in insts[k] if i.fin_ts is not None)
        definite = 0
        for i in insts[k]:
            if i.fin_ts is None:
                continue
            limit = min(parent_end_ts, i.bu_ts if i.bu_ts is not None else parent_end_ts)
            if i.fin_ts < limit - MARGIN_US and i.fin_ts < parent_end_ts - MARGIN_US:
                definite += 1
        if len(done) > n_fin:
            bad("done.invoke without the child having reached its final state (or twice): %d events, %d finished instances of inv%d" % (len(done), n_fin, k), done[-1][0])
        if len(done) < definite and case["forced"] != "run.finished":
            bad("done.invoke missing: child inv%d reached its final state on its own, %d events for %d such instances" % (k, len(done), definite))
        for d in done:
            if d[2] != "inv%d" % k:
                bad("done.invoke carries invokeid %r" % d[2], d[0])
    # (3) late events
    for k in insts:
        for i in insts[k]:
            c = ch[k - 1]
            if c["late"] is not None and i.late_sent_ts is not None and i.au_ts is not None:
                due = i.late_sent_ts + c["late"] * 1000
                if due > i.au_ts + 10000:
                    for pe in parent_events:
                        if pe[1] == "c%d.late" % k and pe[3] == "#_scxml_" + (i.session or "?"):
                            bad("event of a cancelled child reached the parent: c%d.late due %d us after cancellation returned" % (k, due - i.au_ts), pe[0])
    # (4) child -> parent
    seen = {}
    for pe in parent_events:
        name = pe[1]
        if name[0] == 'c' and name[1:2].isdigit() and '.' in name:
            k = int(name[1:name.index('.')])
            if pe[2] != "inv%d" % k:
                bad("event from child carries invokeid %r, expected inv%d" % (pe[2], k), pe[0])
            inst = by_session.get(pe[3])
            if inst is None:
                if all(i.session for i in insts[k]):
                    bad("event from child with unknown origin %r" % pe[3], pe[0])
                continue
            if inst.k != k:
                bad("event %s arrived from the session of inv%d" % (name, inst.k), pe[0])
            if name.endswith('.late'):
                continue
            order = [s[0] for s in inst.sent]
            if name not in order:
                bad("parent processed %s before / without the child sending it" % name, pe[0])
            key = (inst.session, name)
            if key in seen:
                bad("event from child processed twice: %s" % name, pe[0])
            idx = order.index(name)
            last = seen.get((inst.session, '#last'), -1)
            if idx < last:
                bad("events from child out of send order: %s after %s" % (name, order[last]), pe[0])
            seen[key] = True
            seen[(inst.session, '#last')] = idx
    sentinel_fed = next((pos for pos, e in enumerate(tr) if e[0] == 'fed' and e[1] == 'recv zz.end'), None)
    sentinel_done = any(pe[1] == 'zz.end' for pe in parent_events)
    for k in insts:
        for i in insts[k]:
            for name, pos, ts in i.sent:
                before_cancel = i.bu_pos is None or pos < i.bu_pos
                # schedule independent: the send completed before the sentinel was handed to the parent, and the parent processed
                # the sentinel: by FIFO it has processed the child's event
                if before_cancel and sentinel_fed is not None and pos < sentinel_fed and sentinel_done and (i.session, name) not in seen and i.session:
                    bad("event sent by the child while active never processed by the parent: %s" % name, pos)
    # (4) parent -> child and autoforward
    fed_names = set(n for _, n in script_for(case)) | ({"leave"} if case["forced"] == "run.finished" else set()) | {"zz.end"}
    for k in insts:
        mine = set(xnames_for(case, k)) | ({'x.bye'} if (k == 1 and case.get("onexit_send")) else set())
        others = set(x for kk in insts if kk != k for x in xnames_for(case, kk))
        for i in insts[k]:
            xs = [r for r in i.recv if r[0].startswith('x.')]
            for r in xs:
                if r[0] in others or r[0] not in mine:
                    bad("event %s reached inv%d, not the addressed session" % (r[0], k), r[1])
            names = [r[0] for r in xs]
            if len(set(names)) != len(names):
                bad("#_inv%d event processed twice by the child: %s" % (k, names), xs[-1][1])
            if [x for x in names if x != 'x.bye'] != sorted(x for x in names if x != 'x.bye') or ('x.bye' in names and names[-1] != 'x.bye'):
                bad("#_inv%d events out of send order: %s" % (k, names), xs[-1][1])
            fw = [r for r in i.recv if r[0] in fed_names]
            if not ch[k - 1]["autoforward"]:
                if fw:
                    bad("external event %s reached inv%d which has no autoforward" % (fw[0][0], k), fw[0][1])
            else:
                fnames = [r[0] for r in fw]
                if len(set(fnames)) != len(fnames):
                    bad("autoforwarded event delivered twice to inv%d: %s" % (k, fnames), fw[-1][1])
                par = [pe[1] for pe in parent_events if pe[1] in fed_names]
                it = iter(par)
                if not all(any(x == y for y in it) for x in fnames):
                    bad("autoforwarded events at inv%d are not a sub-sequence of the parent's: %s vs %s" % (k, fnames, par), fw[-1][1])
                child_end = min(x for x in [i.fin_ts, i.bu_ts, end_ts] if x is not None)
                for pe in parent_events:
                    if pe[1] in fed_names and i.ai_pos is not None and pe[0] > i.ai_pos and (i.bu_pos is None or pe[0] < i.bu_pos) \
                            and pe[4] < child_end - MARGIN_US and pe[1] not in fnames and i.session:
                        bad("external event %s processed while inv%d was active was not autoforwarded" % (pe[1], k), pe[0])
            # send from the parent well before anything ended: must be processed
            for pos, e in parent_seq:
                if e[0] == 'ac' and e[1].startswith('go') and i.ai_pos is not None and pos > i.ai_pos and (i.bu_pos is None or pos < i.bu_pos):
                    g, j = e[1][2], e[1][3]
                    nm = "x.%s%s" % (g, j)
                    if nm in mine and i.session:
                        child_end = min(x for x in [i.fin_ts, i.bu_ts, end_ts] if x is not None)
                        if e[-1] < child_end - MARGIN_US and nm not in names:
                            bad("event %s sent to #_inv%d while it was running never processed by it" % (nm, k), pos)
    # (5) finalize
    for k in insts:
        if not ch[k - 1]["finalize"]:
            if fin_runs[k]:
                bad("finalize ran for inv%d which has none" % k, fin_runs[k][0])
            continue
        expected = []
        for pe in parent_events:
            if pe[2] == "inv%d" % k and any(i.ai_pos is not None and pe[0] > i.ai_pos and (i.bu_pos is None or pe[0] < i.bu_pos) for i in insts[k]):
                expected.append(pe[0])
        if len(fin_runs[k]) != len(expected):
            bad("finalize of inv%d ran %d times for %d events from it" % (k, len(fin_runs[k]), len(expected)), (fin_runs[k] or expected or [0])[-1])
        # each finalize run precedes the event's transition: between the run and the 'ev' there is no 'bt'
        ppos = [p for p, _ in parent_seq]
        for fpos, epos in zip(fin_runs[k], expected):
            if fpos > epos:
                a = ppos.index(epos)
                b = ppos.index(fpos)
                if any(parent_seq[x][1][0] == 'bt' for x in range(a, b)):
                    bad("finalize of inv%d ran after the transition for its event was taken" % k, fpos)
    return insts


def check_case(ctx, case):
    xml = parent_doc(case)
    until = until_for(case)
    # the sentinel: whatever was enqueued at the parent before it was fed has been processed once the parent processed it (FIFO)
    lines = script_for(case) + [(until - 60, "zz.end")]
    script = "\n".join("%d recv %s" % (t, n) for t, n in lines)
    opts = "until=%d copymon" % until
    if case["forced"] == "run.finished":
        opts += " park=inv.run.finished parkms=80 arm=1 onpark=leave"
    elif case["forced"] == "stop":
        opts += " park=inv.stop parkms=25 arm=1"
    if case["sched"]:
        opts += " sched=" + ",".join(map(str, case["sched"]))
    r = call(ctx, "timed", xml, case["engine"], script, opts)
    if r.get("exception"):
        raise Failure("exception", {"exception": r["exception"][:300], "signature": "exception"})
    tr = r["trace"]
    for e in tr:
        if e[0] == 'destroyed' and int(e[1]) > 2000:
            raise Failure("slow-destruction", {"ms": e[1], "signature": "slow-destroy"})
    stamps = [e[-1] for e in tr if e[0] not in ('log', 'fed', 'fed-on-park', 'destroyed', 'st', 'cfg')]
    end_ts = max(stamps) if stamps else 0
    # the run lasts until 'until' ms after the first record (or the parent finished)
    if stamps:
        end_ts = max(end_ts, min(stamps) + until * 1000) if not any(e[0] == 'bcomp' and e[-2] == '' for e in tr) else end_ts
    insts = check_trace(case, tr, end_ts)
    all_i = [i for k in insts for i in insts[k]]
    exited_alive = any(i.bu_ts is not None and (i.fin_ts is None or i.fin_ts > i.bu_ts) for i in all_i)
    both_ways = any(i.sent for i in all_i) and any(r[0].startswith('x.') for i in all_i for r in i.recv)
    labels = {'engine-' + case["engine"], 'children-%d' % len(case["children"])}
    for c in case["children"]:
        labels.add('child-' + c["mode"])
        if c.get("grandchild"):
            labels.add('nested-invoke')
    if case["leave"] is not None:
        labels.add('leave-' + case["leave"][1])
    if any(len(insts[k]) > 1 for k in insts):
        labels.add('re-invoked')
    if exited_alive:
        labels.add('cancelled-while-alive')
    if any(i.fin_ts is not None for i in all_i):
        labels.add('child-finished')
    if case["forced"]:
        labels.add('forced-' + case["forced"] + ('-hit' if r.get("park_count") else '-missed'))
    if any(c["autoforward"] for c in case["children"]):
        labels.add('autoforward')
    if any(c["finalize"] for c in case["children"]):
        labels.add('finalize')
    if case.get("onexit_send"):
        labels.add('onexit-send-to-child')
    ctx.count(harness.h64(json.dumps(case, sort_keys=True)), exited_alive and both_ways, labels,
              sample=lambda: {"case": case, "parent_events": [e[1] for e in tr if e[0] == 'ev' and e[-2] == ''][:20],
                              "instances": {("inv%d" % k): len(insts[k]) for k in insts}})


child_s = st.fixed_dictionaries({
    "mode": st.sampled_from(["never", "late", "early", "late"]),
    "D": st.sampled_from([5, 15, 30, 60]),
    "k0": st.sampled_from([1, 2, 3, 0, 1]),
    "late": st.one_of(st.none(), st.sampled_from([10, 40, 90])),
    "autoforward": st.booleans(),
    "finalize": st.booleans(),
    "echo": st.sampled_from([True, True, False]),
    "grandchild": st.sampled_from([False, False, True]),
})
case_s = st.fixed_dictionaries({
    "engine": st.sampled_from(["large", "fast"]),
    "children": st.lists(child_s, min_size=1, max_size=2),
    "leave": st.one_of(st.tuples(st.sampled_from([0, 5, 12, 25, 45, 70, 100]), st.sampled_from(["exit", "self", "final", "exit", "self"])), st.none(),
                       st.tuples(st.sampled_from([25, 45, 70, 100]), st.sampled_from(["exit", "self", "final"]))),
    "back": st.one_of(st.none(), st.sampled_from([5, 20, 40])),
    "go": st.one_of(st.lists(st.sampled_from([3, 10, 20, 40, 80]), min_size=1, max_size=2), st.lists(st.sampled_from([3, 10, 20, 40, 80]), max_size=2)),
    "f": st.lists(st.sampled_from([2, 8, 18, 35, 60, 90]), max_size=3),
    "on_done": st.sampled_from(["stay", "stay", "move"]),
    "forced": st.sampled_from([None, None, None, "run.finished", "stop"]),
    "sched": st.lists(st.integers(0, 3), max_size=6),
    "onexit_send": st.sampled_from([False, False, True]),
})


def normalise_case(case):
    case = dict(case)
    case["go"] = sorted(set(case["go"]))
    case["f"] = sorted(set(case["f"]))
    if case["leave"] is not None:
        case["leave"] = list(case["leave"])
    if case["forced"] == "run.finished":
        if case["leave"] is None:
            case["leave"] = [0, "exit"]
        if not any(c["mode"] in ("early", "late") for c in case["children"]):
            case["forced"] = None
    return case


def shard_main(ctx):
    p = ctx.params
    if ctx.shard == 0:
        ctx.replay_corpus(sys.modules[__name__])
    ctx.run_hypothesis([case_s], lambda c: check_case(ctx, normalise_case(c)), p["cases"] // ctx.nshards + 1,
                       lambda c: {"case": normalise_case(c)})


def replay(ctx, case):
    try:
        check_case(ctx, normalise_case(case["case"]))
    except Failure as f:
        return [{"kind": f.kind, "detail": f.detail}]
    return []


if __name__ == "__main__":
    if "--shard" in sys.argv:
        harness.shard_entry(sys.modules[__name__])
