"""C16 - values survive the trip through the Lua datamodel; system variables are protected."""
import sys, os, json, math
sys.path.insert(0, os.path.join(os.path.dirname(os.path.abspath(__file__)), "..", "pylib"))
sys.path.insert(0, os.path.dirname(os.path.abspath(__file__)))
import harness
from harness import Failure
from worker import WorkerCrash, WorkerHang
from hypothesis import strategies as st
from props.C15 import wire  # same wire format for Data trees

PROPERTY = "C16"
LEVEL = "exploration"
RULE = ("cases = (value, entry path, exit path): values of the statement's domain only - strings (empty, number-like, "
        "Lua-code-like, quotes/backslashes/newlines, UTF-8), integers (incl. > 2^24 and > 6 significant digits), reals, "
        "booleans, non-empty arrays, maps with non-numeric keys, nested to depth 3 - entered through DataModel::assign, "
        "as external event payload (_event.data), as <param> and namelist entry of a <send> to the own session, and as "
        "<donedata> param, and read back through evalAsData after the chart copied it out of _event.data. Oracle = round "
        "trip modulo Lua's own value semantics (numbers numerically, strings bytewise, arrays positionally, maps by key). "
        "Second stream: <assign> and DataModel::assign to _event/_sessionid/_name/_ioprocessors/_invokers must raise "
        "error.execution and leave the value unchanged. non-trivial = container value or an atom from a 'looks like "
        "something else' class; distinct = hash(value, path)")
ASSUMPTIONS = ["numeric map keys and nil holes are excluded by the property statement and never generated",
               "Data cannot represent empty containers: not generated"]
BUILDS = (("san", ["worker"]),)

DOC = '''<scxml xmlns="http://www.w3.org/2005/07/scxml" version="1.0" datamodel="lua" name="c16">
<datamodel><data id="v"/><data id="out"/><data id="out2"/><data id="out3"/><data id="out4"/></datamodel>
<state id="s">
 <transition event="in"><assign location="out" expr="_event.data"/></transition>
 <transition event="go"><send event="back"><param name="p" expr="_event.data"/></send></transition>
 <transition event="back"><assign location="out2" expr="_event.data.p"/></transition>
 <transition event="nl"><assign location="v" expr="_event.data"/><send event="back2" namelist="v"/></transition>
 <transition event="back2"><assign location="out3" expr="_event.data.v"/></transition>
 <transition event="dd" target="c"><assign location="v" expr="_event.data"/></transition>
 <transition event="sys.sessionid"><assign location="_sessionid" expr="'x'"/></transition>
 <transition event="sys.name"><assign location="_name" expr="'x'"/></transition>
 <transition event="sys.event"><assign location="_event" expr="'x'"/></transition>
 <transition event="sys.ioprocessors"><assign location="_ioprocessors" expr="'x'"/></transition>
 <transition event="sys.invokers"><assign location="_invokers" expr="'x'"/></transition>
 <transition event="error.execution"><assign location="out4" expr="'error-seen'"/></transition>
</state>
<state id="c">
 <state id="c1"><transition target="cf"/></state>
 <final id="cf"><donedata><param name="p" expr="v"/></donedata></final>
 <transition event="done.state.c" target="s"><assign location="out4" expr="_event.data.p"/></transition>
</state>
</scxml>'''


def budget(tier):
    if tier == "thorough":
        return {"values": 40000, "sys": 400, "min_nontrivial": 10000}
    return {"values": 3000, "sys": 60, "min_nontrivial": 1000}


SPECIAL = ['"', '\\', '\n', '\t', "'", ']]', '[[', '--', ' ', 'é', '€', '{', '}', '=', ',']
str_atoms = st.one_of(
    st.lists(st.one_of(st.sampled_from(SPECIAL), st.characters(min_codepoint=0x20, max_codepoint=0x7e)), max_size=8).map("".join),
    st.sampled_from(['', '1', '0', '-1', '1.5', '007', '1e3', '0x10', 'true', 'false', 'nil', 'x', 'return 1', 'os.exit()', 'In("s")',
                     '_event', 'a.b', '{}', '{1,2}', '"q"', " 1", "1 ", "nan", "inf"]),
).map(lambda s: ('v', s))
num_atoms = st.one_of(
    st.integers(-2 ** 31, 2 ** 31).map(str),
    st.sampled_from(['0', '1', '-1', '16777217', '123456789', '2147483647', '1234567', '100000', '999999', '1000000']),
    st.sampled_from(['1.5', '-0.25', '3.125', '0.1', '123456.789', '1.000001', '2.5e10', '0.000123']),
).map(lambda s: ('i', s))
bool_atoms = st.sampled_from([('i', 'true'), ('i', 'false')])
atoms = st.one_of(str_atoms, num_atoms, bool_atoms)
map_keys = st.one_of(st.sampled_from(['k', 'key', 'a', 'b', 'name', 'data', 'x1', '_u', 'K']),
                     st.lists(st.sampled_from(['a', 'b', 'k', '_', 'z', '-', ' ', '.', 'é']), min_size=1, max_size=4).map("".join)) \
    .filter(lambda k: not k.strip().lstrip('-').isdigit())


def values(depth=2):
    if depth == 0:
        return atoms
    sub = st.deferred(lambda: values(depth - 1))
    return st.one_of(atoms, atoms,
                     st.lists(sub, min_size=1, max_size=4).map(lambda l: ('A', l)),
                     st.lists(atoms, min_size=5, max_size=40).map(lambda l: ('A', l)),       # long arrays (index 10 and beyond)
                     st.dictionaries(map_keys, sub, min_size=1, max_size=4).map(lambda d: ('M', d)))


PATHS = ['api', 'event', 'param', 'namelist', 'donedata', 'invoke-param', 'invoke-namelist']


def as_number(s):
    try:
        if s.strip() != s or s == '':
            return None
        f = float(s)
        if math.isnan(f) or math.isinf(f):
            return None
        return f
    except ValueError:
        return None


def equivalent(t, d):
    """t: generated tree; d: worker dump. Lua value semantics."""
    k = t[0]
    if k == 'v':
        return isinstance(d, list) and len(d) == 2 and d[0] == 'v' and d[1] == t[1].encode('utf-8').decode('latin-1')
    if k == 'i':
        if not (isinstance(d, list) and len(d) == 2 and isinstance(d[1], str)):
            return False
        if t[1] in ('true', 'false'):
            return d[0] == 'i' and d[1] == t[1]
        a, b = as_number(t[1]), as_number(d[1])
        if a is None or b is None or d[0] != 'i':
            return False
        return a == b or (a != 0 and abs(a - b) <= abs(a) * 1e-15)
    if k == 'A':
        return isinstance(d, list) and len(d) == len(t[1]) and not (len(d) == 2 and d[0] in ('v', 'i') and isinstance(d[1], str) and not isinstance(t[1][0], tuple)) \
            and all(equivalent(x, y) for x, y in zip(t[1], d))
    if k == 'M':
        if not isinstance(d, dict):
            return False
        want = {key.encode('utf-8').decode('latin-1'): v for key, v in t[1].items()}
        return set(want) == set(d) and all(equivalent(v, d[key]) for key, v in want.items())
    return False


def classes(t, out=None):
    out = set() if out is None else out
    if t[0] == 'v':
        s = t[1]
        if s == '':
            out.add('empty-string')
        elif as_number(s) is not None:
            out.add('number-like-string')
        elif s in ('true', 'false', 'nil'):
            out.add('keyword-like-string')
        elif any(c in s for c in '"\\\n\'[]'):
            out.add('string-with-quotes')
        else:
            out.add('plain-string')
    elif t[0] == 'i':
        if t[1] in ('true', 'false'):
            out.add('boolean')
        elif '.' in t[1] or 'e' in t[1]:
            out.add('real')
        else:
            out.add('big-integer' if abs(int(t[1])) >= 1000000 else 'integer')
    elif t[0] == 'A':
        out.add('array')
        for x in t[1]:
            classes(x, out)
    else:
        out.add('map')
        for x in t[1].values():
            classes(x, out)
    return out


def call(ctx, *args):
    try:
        return ctx.worker().call(*args)
    except WorkerCrash as e:
        from chartcase import crash_signature
        raise Failure("crash", {"stderr": e.stderr[-2500:], "signature": crash_signature(e.stderr)})
    except WorkerHang:
        raise Failure("hang", {"signature": "hang"})


def known(ctx, cls, example):
    for f in ctx.kf.known(PROPERTY):
        sig = f.get("signature", {})
        if sig.get("kind") == "class" and sig.get("class") in cls:
            ctx.known_finding(f["id"], example)
            return True
    return False


def lua_lit(t):
    """the generated tree as a Lua expression (strings with decimal escapes only, so no quoting question arises)"""
    k = t[0]
    if k == 'v':
        return "'" + "".join(chr(b) if (48 <= b <= 57 or 65 <= b <= 90 or 97 <= b <= 122 or b == 32) else "\\%03d" % b for b in t[1].encode('utf-8')) + "'"
    if k == 'i':
        return t[1]
    if k == 'A':
        return "{" + ", ".join(lua_lit(x) for x in t[1]) + "}"
    return "{" + ", ".join("[%s] = %s" % (lua_lit(('v', key)), lua_lit(v)) for key, v in t[1].items()) + "}"


INVOKE_DOC = ('<scxml xmlns="http://www.w3.org/2005/07/scxml" version="1.0" datamodel="lua" name="p16"><datamodel><data id="v"/><data id="got"/></datamodel>'
              '<state id="s0"><onentry><assign location="v" expr="%s"/></onentry><invoke type="scxml" id="c"%s>%s<content>'
              '<scxml xmlns="http://www.w3.org/2005/07/scxml" version="1.0" datamodel="lua" name="c16c"><datamodel><data id="v" expr="\'default\'"/></datamodel>'
              '<state id="c0"><onentry><send target="#_parent" event="back"><param name="p" expr="v"/></send></onentry></state></scxml>'
              '</content></invoke><transition event="back" target="s1"><assign location="got" expr="_event.data.p"/></transition></state><final id="s1"/></scxml>')


def check_invoke_value(ctx, t, path):
    """the value travels parent -> (invoke param | namelist) -> child <data> -> #_parent send param -> parent"""
    from xml.sax.saxutils import escape
    lit = escape(lua_lit(t), {'"': '&quot;'})
    doc = INVOKE_DOC % (lit, ' namelist="v"' if path == 'invoke-namelist' else '', '<param name="v" expr="v"/>' if path == 'invoke-param' else '')
    r = call(ctx, "run", doc.encode('utf-8'), "large", "", "data vars=got idlewait=400 maxsteps=200")
    if r.get("exception"):
        raise Failure("setup-exception", {"exception": r["exception"], "signature": "setup"})
    got = r.get("data", {}).get("got")
    cls = classes(t) | {'path-' + path}
    errs = [e[1] for e in r["trace"] if e[0] == 'ev' and str(e[1]).startswith('error')]
    if errs or got is None or not equivalent(t, got):
        raise Failure("value-changed", {"value": repr(t)[:400], "path": path, "observed": got, "errors": errs, "classes": sorted(cls),
                                        "signature": ["value", path] + sorted(c for c in cls if not c.startswith('path-'))[:2]})
    nontrivial = t[0] in ('A', 'M') or bool(cls & {'empty-string', 'number-like-string', 'keyword-like-string', 'string-with-quotes', 'big-integer', 'real'})
    ctx.count(harness.h64(repr(t), path), nontrivial, cls, sample={"value": repr(t)[:200], "path": path, "read_back": got})


def check_value(ctx, t, path):
    if path.startswith('invoke-'):
        return check_invoke_value(ctx, t, path)
    tw = wire(t).decode('latin-1')
    if path == 'api':
        ops = ["vv\x1f" + tw, "ev"]
    elif path == 'event':
        ops = ["rin\x1f" + tw, "eout"]
    elif path == 'param':
        ops = ["rgo\x1f" + tw, "eout2"]
    elif path == 'namelist':
        ops = ["rnl\x1f" + tw, "eout3"]
    else:
        ops = ["rdd\x1f" + tw, "eout4"]
    r = call(ctx, "dm", DOC.encode('utf-8'), *[o.encode('latin-1') for o in ops])
    if "exception" in r:
        raise Failure("setup-exception", {"exception": r["exception"], "signature": "setup"})
    res = r["r"]
    cls = classes(t) | {'path-' + path}
    got = res[-1].get("v") if "v" in res[-1] else {"error": res[-1].get("err"), "what": res[-1].get("what")}
    ok = "v" in res[-1] and equivalent(t, res[-1]["v"]) and all('err' not in x for x in res[:-1])
    if not ok:
        if known(ctx, cls, {"value": repr(t)[:200], "path": path}):
            ctx.count(harness.h64(repr(t), path), False, ['excluded_by_known_finding'])
            return
        raise Failure("value-changed", {"value": repr(t)[:400], "path": path, "observed": got, "steps": res[:-1],
                                        "classes": sorted(cls), "signature": ["value", path] + sorted(c for c in cls if not c.startswith('path-'))[:2]})
    nontrivial = t[0] in ('A', 'M') or bool(cls & {'empty-string', 'number-like-string', 'keyword-like-string', 'string-with-quotes', 'big-integer', 'real'})
    ctx.count(harness.h64(repr(t), path), nontrivial, cls, sample={"value": repr(t)[:200], "path": path, "read_back": got})


SYSVARS = ['_sessionid', '_name', '_event', '_ioprocessors', '_invokers']


SYS_DOC = ('<scxml xmlns="http://www.w3.org/2005/07/scxml" version="1.0" datamodel="lua" name="sysdoc"%s><datamodel>%s</datamodel>'
           '<state id="s0"><datamodel>%s</datamodel><onentry><log label="SV" expr="type(%s) .. \':\' .. tostring(%s)"/></onentry>'
           '<transition event="error.execution" target="s1"/></state><state id="s1"><onentry><log label="ERR" expr="1"/></onentry></state></scxml>')


def check_sysvar_data(ctx, var, val, late):
    """a <data> element naming a system variable (early or late binding): error.execution, value unchanged"""
    shown = var if var not in ('_ioprocessors', '_invokers', '_event') else "'-'"
    decl = '<data id="%s" expr="%s"/>' % (var, val.replace('"', '&quot;'))
    docs = [SYS_DOC % (' binding="late"' if late else '', '' if late else d, d if late else '', var, shown) for d in (decl, '')]
    out = []
    for doc in docs:
        r = call(ctx, "run", doc, "large", "", "")
        if r.get("exception"):
            raise Failure("setup-exception", {"exception": r["exception"], "signature": "setup"})
        out.append(([e[1] for e in r["trace"] if e[0] == 'log' and e[1].startswith('SV')], any(e[0] == 'ev' and e[1] == 'error.execution' for e in r["trace"])))
    (sv_with, err_with), (sv_without, _) = out
    if not err_with:
        raise Failure("sysvar-assignable", {"variable": var, "how": "data", "late": late, "signature": ["sysvar", var, "data"]})
    # _sessionid differs between two sessions: compare the type and, for _name, the value
    a, b = (sv_with or ['?'])[0], (sv_without or ['?'])[0]
    if var == '_sessionid':
        a, b = a.split(':')[1 if ':' in a else 0].strip(), b.split(':')[1 if ':' in b else 0].strip()
    if a != b:
        raise Failure("sysvar-changed", {"variable": var, "how": "data", "late": late, "with_data_element": sv_with, "without": sv_without,
                                         "signature": ["sysvar-changed", var, "data"]})
    ctx.count(harness.h64("sysdata", var, val, str(late)), True, ['sysvar-data'], sample={"variable": var, "how": "<data>", "late": late})


def check_sysvar(ctx, var, how, val):
    """assignment to a system variable: error.execution, value unchanged"""
    before_after = "e" + var
    if how == 'data':
        return check_sysvar_data(ctx, var, val, False)
    if how == 'data-late':
        return check_sysvar_data(ctx, var, val, True)
    if how == 'api':
        ops = ["rin\x1fav1:x", before_after, "a%s\x1f%s" % (var, val), before_after]
        r = call(ctx, "dm", DOC, *ops)["r"]
        b, a = r[1], r[3]
        raised = 'err' in r[2] and r[2]['err'] == 'error.execution'
    else:
        ops = ["rin\x1fav1:x", "vout4\x1fav4:none", "rsys.%s" % var[1:], "eout4"]
        r = call(ctx, "dm", DOC, *ops)["r"]
        raised = r[3].get("v") == ['v', 'error-seen']
        # value unchanged: _sessionid / _name are observable afterwards
        r2 = call(ctx, "dm", DOC, "e" + var, "rsys.%s" % var[1:], "e" + var)["r"]
        b, a = r2[0], r2[2]
        if var == '_event':
            b = a = {}   # _event changes with every processed event by design
    if not raised:
        raise Failure("sysvar-assignable", {"variable": var, "how": how, "result": r, "signature": ["sysvar", var, how]})
    if var != '_event' and b != a:
        raise Failure("sysvar-changed", {"variable": var, "how": how, "before": b, "after": a, "signature": ["sysvar-changed", var]})
    ctx.count(harness.h64("sys", var, how, val), True, ['sysvar-' + how], sample={"variable": var, "how": how})


def shard_main(ctx):
    p = ctx.params
    n = ctx.nshards
    if ctx.shard == 0:
        ctx.replay_corpus(sys.modules[__name__])
    ctx.run_hypothesis([values(2), st.sampled_from(PATHS)], lambda t, path: check_value(ctx, t, path), p["values"] // n + 1,
                       lambda t, path: {"value": repr(t), "path": path}, name="value")
    ctx.run_hypothesis([st.sampled_from(SYSVARS), st.sampled_from(['api', 'chart', 'data', 'data-late']), st.sampled_from(["1", "'x'", "nil", "{}"])],
                       lambda v, h, val: check_sysvar(ctx, v, h, val), p["sys"] // n + 1,
                       lambda v, h, val: {"sysvar": v, "how": h, "val": val}, name="sys")


def replay(ctx, case):
    import ast
    try:
        if "value" in case:
            check_value(ctx, ast.literal_eval(case["value"]), case["path"])
        else:
            check_sysvar(ctx, case["sysvar"], case["how"], case["val"])
    except Failure as f:
        return [{"kind": f.kind, "detail": f.detail}]
    return []


if __name__ == "__main__":
    if "--shard" in sys.argv:
        harness.shard_entry(sys.modules[__name__])
