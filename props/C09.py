"""C09 - delayed events fire once, not early, in due order, unless cancelled."""
import sys, os, json
sys.path.insert(0, os.path.join(os.path.dirname(os.path.abspath(__file__)), "..", "pylib"))
sys.path.insert(0, os.path.dirname(os.path.abspath(__file__)))
import harness
from harness import Failure
from chartcase import crash_signature, crash_excerpt
from worker import WorkerCrash, WorkerHang
from hypothesis import strategies as st

PROPERTY = "C09"
LEVEL = "exploration"
RULE = ("cases = a set of <= 8 delayed <send>s (delays 0-120 ms written as 'Nms', 'N.NNNs' or unit-less, ids, some equal delays) "
        "issued from one onentry block (optionally several sends share one send id, as a re-armed watchdog does: a cancel then addresses all of them), cancels by id either immediately in the same block or by an external event fed at a "
        "generated time (before, around or after the due time), run on the real timer thread; engine large/fast. Oracle from "
        "monotonic timestamps taken in the monitor callbacks: every non-cancelled event is delivered exactly once and not "
        "before its delay elapsed (to within the timer granularity G; lateness is never an error); two events whose due times "
        "differ by more than 2G+4 ms are delivered in due order; an event whose cancel executed more than 2G+7 ms before its due time is never "
        "delivered; a racing cancel may go either way but never twice. Forced schedule: the timer thread is parked at the "
        "USCXML_VERIF point between releasing the queue lock and delivering the event while the interpreter thread executes "
        "the <cancel> for that very event, or at the entry of its callback before it takes the queue lock: no crash (use of the freed libevent event), no deadlock, at most one delivery. Second "
        "forced schedule: the timer thread is held inside a callback for 10-70 ms and a <send delay> is executed meanwhile - it must "
        "still wait its full delay (libevent computes deadlines from a cached clock while callbacks run). Third: the interpreter is "
        "destroyed (queue-wide cancel) while the timer thread is in the middle of delivering an event. "
        "non-trivial = >= 3 timers with distinct due times and >= 1 cancel; distinct = hash of the timer/cancel set")
ASSUMPTIONS = ["only lower bounds on time are asserted; a 30 s watchdog per run signals a deadlock (normal runs: < 0.5 s)",
               "timer granularity G = resolution of CLOCK_MONOTONIC_COARSE (one kernel tick, 4 ms here) + 1 ms: libevent's default "
               "(non-PRECISE_TIMER) event base computes deadlines from the coarse clock, so a timer legitimately fires up to one tick "
               "before the precise due time (measured on an idle machine: a 100 ms send delivered after 96.5 ms in 2 of 40 runs); the "
               "property grants exactly this ('to within timer granularity')"]
BUILDS = (("san", ["worker"]),)
import time as _time
try:
    G_US = int(_time.clock_getres(6) * 1e6) + 1000   # 6 = CLOCK_MONOTONIC_COARSE
except Exception:
    G_US = 5000
G_US = max(G_US, 3000)


def budget(tier):
    if tier == "thorough":
        return {"cases": 2400, "forced": 600, "busy": 320, "min_nontrivial": 800}
    return {"cases": 640, "forced": 160, "busy": 48, "min_nontrivial": 100}


def render_delay(ms, syntax):
    if syntax == 'ms':
        return "%dms" % ms
    if syntax == 's':
        return "%.3fs" % (ms / 1000.0)
    return "%d" % ms


def sid(i, share):
    """send id of timer i: with share = k > 0, timers i and j share an id iff i % k == j % k (a re-armed watchdog)"""
    return "id%d" % (i % share if share else i)


def build_doc(timers, cancels, share=0):
    """timers: [(delay_ms, syntax)], cancels: [(timer_index, when)] when = 'now' or an int (ms at which event c.<i> is fed)"""
    sends = "".join('<send vid="send%d" event="t.%d" delay="%s" id="%s"/>' % (i, i, render_delay(d, sx), sid(i, share)) for i, (d, sx) in enumerate(timers))
    nows = "".join('<cancel vid="cnow%d" sendid="%s"/>' % (i, sid(i, share)) for i, w in cancels if w == 'now')
    trans = "".join('<transition event="c.%d"><cancel vid="cancel%d" sendid="%s"/></transition>' % (i, i, sid(i, share)) for i, w in cancels if w != 'now')
    return ('<scxml xmlns="http://www.w3.org/2005/07/scxml" version="1.0" datamodel="null" name="d"><state id="s0" vid="s0">'
            '<onentry>%s%s</onentry><transition event="t" vid="tt"><log vid="lg" label="T" expr="1"/></transition>%s</state></scxml>' % (sends, nows, trans))


def call(ctx, *args):
    try:
        return ctx.worker().call(*args, timeout=30)
    except WorkerCrash as e:
        raise Failure("crash", {"stderr": crash_excerpt(e.stderr), "signature": crash_signature(e.stderr)})
    except WorkerHang:
        raise Failure("deadlock-or-hang", {"signature": "hang"})


def analyse(tr, timers, cancels, forced=None):
    sent_at, cancel_at, delivered = {}, {}, {}
    for e in tr:
        if e[0] == 'bc' and e[1].startswith('send'):
            sent_at[int(e[1][4:])] = e[-1]
        elif e[0] == 'ac' and (e[1].startswith('cancel') or e[1].startswith('cnow')):
            i = int(e[1][6:]) if e[1].startswith('cancel') else int(e[1][4:])
            cancel_at.setdefault(i, e[-1])
        elif e[0] == 'ev' and e[1].startswith('t.'):
            delivered.setdefault(int(e[1][2:]), []).append(e[-1])
    return sent_at, cancel_at, delivered


def check_case(ctx, timers, cancels, engine, share=0):
    # one cancel per send id at most
    seen = set()
    cancels = [c for c in cancels if c[0] < len(timers) and not (sid(c[0], share) in seen or seen.add(sid(c[0], share)))]
    xml = build_doc(timers, cancels, share)
    script = "\n".join("%d recv c.%d" % (w, i) for i, w in cancels if w != 'now')
    until = max([d for d, _ in timers] + [w for _, w in cancels if w != 'now'] + [0]) + 200
    r = call(ctx, "timed", xml, engine, script, "until=%d" % until)
    if r.get("exception"):
        raise Failure("exception", {"exception": r["exception"][:300], "signature": "exception"})
    tr = r["trace"]
    sent_at, cancel_at, delivered = analyse(tr, timers, cancels)
    cancelled = dict(cancels)
    if share:
        # a <cancel> addresses every pending event sent with that id
        for i in range(len(timers)):
            for c, w in cancels:
                if i != c and sid(i, share) == sid(c, share):
                    cancelled[i] = w
                    if c in cancel_at:
                        cancel_at.setdefault(i, cancel_at[c])

    def bad(kind, **kw):
        raise Failure(kind, dict(kw, timers=timers, cancels=cancels, signature=kind))
    for i, (d, sx) in enumerate(timers):
        if i not in sent_at:
            bad("send-not-executed", timer=i)
        n = len(delivered.get(i, []))
        if n > 1:
            bad("delivered-twice", timer=i, times=delivered[i])
        due = sent_at[i] + d * 1000
        if n == 1:
            t = delivered[i][0]
            if t < due - G_US:
                bad("delivered-early", timer=i, delay_ms=d, syntax=sx, early_by_us=int(due - t))
        if i in cancelled:
            if i in cancel_at and cancel_at[i] < due - (2 * G_US + 7000) and n == 1:
                bad("delivered-after-cancel", timer=i, delay_ms=d, cancel_before_due_us=int(due - cancel_at[i]))
        elif n == 0:
            bad("not-delivered", timer=i, delay_ms=d, syntax=sx)
    # due order
    got = sorted(((delivered[i][0], i) for i in delivered if len(delivered[i]) == 1))
    for a in range(len(got)):
        for b in range(a + 1, len(got)):
            ia, ib = got[a][1], got[b][1]
            due_a, due_b = sent_at[ia] + timers[ia][0] * 1000, sent_at[ib] + timers[ib][0] * 1000
            if due_a > due_b + 2 * G_US + 4000:
                bad("delivered-out-of-due-order", first=ia, second=ib, due_gap_us=int(due_a - due_b))
    distinct_due = len(set(d for d, _ in timers))
    labels = {'engine-' + engine}
    if any(w == 'now' for _, w in cancels):
        labels.add('cancel-immediately')
    for i, w in cancels:
        if w != 'now':
            d = timers[i][0]
            labels.add('cancel-before-due' if w < d - 10 else ('cancel-after-due' if w > d + 10 else 'cancel-around-due'))
    for _, sx in timers:
        labels.add('delay-syntax-' + sx)
    if share:
        labels.add('shared-send-id')
    ctx.count(harness.h64(json.dumps([timers, cancels, engine, share])), distinct_due >= 3 and len(cancels) >= 1, labels,
              sample={"timers_ms": timers, "cancels": cancels, "engine": engine,
                      "delivered_ms_after_send": {str(i): round((delivered[i][0] - sent_at[i]) / 1000.0, 1) for i in delivered if delivered[i]}})


def check_forced(ctx, timers, engine, point="dq.timer.window"):
    """the cancel for the first-due timer is executed while the timer thread sits in the delivery window (after it released
    the queue lock) or at the very entry of its callback (before it takes the lock)"""
    first = min(range(len(timers)), key=lambda i: (timers[i][0], i))
    cancels = [(first, 10 ** 6)]
    xml = build_doc(timers, cancels)
    until = max(d for d, _ in timers) + 500
    r = call(ctx, "timed", xml, engine, "", "until=%d park=%s parkms=250 arm=1 onpark=c.%d" % (until, point, first))
    if r.get("exception"):
        raise Failure("exception", {"exception": r["exception"][:300], "signature": "exception"})
    tr = r["trace"]
    sent_at, cancel_at, delivered = analyse(tr, timers, cancels)
    for i in range(len(timers)):
        if len(delivered.get(i, [])) > 1:
            raise Failure("delivered-twice", {"timer": i, "timers": timers, "signature": "delivered-twice-forced"})
        if i != first and len(delivered.get(i, [])) != 1:
            raise Failure("not-delivered", {"timer": i, "timers": timers, "forced": True, "signature": "not-delivered-forced"})
    in_window = r.get("park_count", 0) >= 1 and any(e[0] == 'fed-on-park' for e in tr)
    ctx.count(harness.h64("forced", point, json.dumps([timers, engine])), in_window, ['forced-' + point, 'cancel-in-window' if in_window else 'window-missed'],
              sample={"timers_ms": timers, "engine": engine, "cancelled_in_window": first, "delivered": sorted(delivered)})


STALE_DOC = ('<scxml xmlns="http://www.w3.org/2005/07/scxml" version="1.0" datamodel="null" name="d"><state id="s0" vid="s0"><onentry>'
             '<send vid="send0" event="t.0" delay="1ms" id="id0"/></onentry><transition event="t" vid="tt"/><transition event="c.0">'
             '<send vid="send1" event="t.1" delay="%s" id="id1"/></transition></state></scxml>')


def check_busy_timer_thread(ctx, delay, held, sx, engine):
    """a <send delay> executed while the timer thread has been inside a callback for `held` ms must still wait its full delay"""
    r = call(ctx, "timed", STALE_DOC % render_delay(delay, sx), engine, "", "until=%d park=dq.timer.window parkms=%d arm=1 onpark=c.0 onparkdelay=%d"
             % (delay + held + 250, held + 150, held))
    if r.get("exception"):
        raise Failure("exception", {"exception": r["exception"][:300], "signature": "exception"})
    tr = r["trace"]
    sent = [e[-1] for e in tr if e[0] == 'bc' and e[1] == 'send1']
    got = [e[-1] for e in tr if e[0] == 'ev' and e[1] == 't.1']
    hit = r.get("park_count", 0) >= 1 and len(sent) == 1
    if hit:
        if len(got) > 1:
            raise Failure("delivered-twice", {"delay_ms": delay, "held_ms": held, "signature": "delivered-twice-busy"})
        if len(got) == 0:
            raise Failure("not-delivered", {"delay_ms": delay, "held_ms": held, "signature": "not-delivered-busy"})
        if got[0] < sent[0] + delay * 1000 - G_US:
            raise Failure("delivered-early", {"delay_ms": delay, "timer_thread_busy_for_ms": held, "early_by_us": int(sent[0] + delay * 1000 - got[0]),
                                              "signature": "delivered-early-busy-timer-thread"})
    ctx.count(harness.h64("busy", json.dumps([delay, held, sx, engine])), hit, ['busy-timer-thread' if hit else 'busy-window-missed'],
              sample={"delay_ms": delay, "timer_thread_busy_for_ms": held, "engine": engine,
                      "delivered_ms_after_send": round((got[0] - sent[0]) / 1000.0, 1) if got and sent else None})


timers_s = st.lists(st.tuples(st.sampled_from([0, 1, 5, 10, 20, 30, 40, 60, 80, 100, 120]), st.sampled_from(['ms', 'ms', 's', 'none'])), min_size=1, max_size=8)
cancels_s = st.lists(st.tuples(st.integers(0, 7), st.one_of(st.just('now'), st.sampled_from([0, 5, 15, 25, 35, 50, 70, 90, 110, 130]))), max_size=4)


def shard_main(ctx):
    p = ctx.params
    if ctx.shard == 0:
        ctx.replay_corpus(sys.modules[__name__])
    share_s = st.sampled_from([0, 0, 0, 1, 2, 3])
    ctx.run_hypothesis([timers_s, cancels_s, st.sampled_from(['large', 'fast']), share_s], lambda t, c, e, sh: check_case(ctx, t, c, e, sh),
                       p["cases"] // ctx.nshards + 1, lambda t, c, e, sh: {"timers": t, "cancels": c, "engine": e, "share": sh})
    ctx.run_hypothesis([timers_s, st.sampled_from(['large', 'fast']), st.sampled_from(["dq.timer.window", "dq.timer.entry"])],
                       lambda t, e, pt: check_forced(ctx, t, e, pt), p["forced"] // ctx.nshards + 1,
                       lambda t, e, pt: {"timers": t, "forced": True, "engine": e, "point": pt}, name="forced")
    # teardown racing with a delivery in progress (the queue-wide cancel): shared with C10
    import C10
    ctx.run_hypothesis([st.lists(st.sampled_from([1, 2, 5, 10]), min_size=1, max_size=3), st.sampled_from(["dq.timer.window", "ii.eventReady"]),
                        st.sampled_from(["large", "fast"])], lambda d, pt, e: C10.check_destroy_while_delivering(ctx, d, pt, e), p["busy"] // ctx.nshards + 1,
                       lambda d, pt, e: {"destroy_delivering": [d, pt, e]}, name="teardown")
    ctx.run_hypothesis([st.sampled_from([30, 60, 100, 150]), st.sampled_from([10, 20, 40, 70]), st.sampled_from(['ms', 's', 'none']), st.sampled_from(['large', 'fast'])],
                       lambda d, h, sx, e: check_busy_timer_thread(ctx, d, h, sx, e), p["busy"] // ctx.nshards + 1,
                       lambda d, h, sx, e: {"busy": [d, h, sx, e]}, name="busy")


def replay(ctx, case):
    try:
        if "destroy_delivering" in case:
            import C10
            C10.check_destroy_while_delivering(ctx, *case["destroy_delivering"])
            return []
        if "busy" in case:
            check_busy_timer_thread(ctx, *case["busy"])
            return []
        timers = [tuple(x) for x in case["timers"]]
        if case.get("forced"):
            check_forced(ctx, timers, case["engine"], case.get("point", "dq.timer.window"))
        else:
            check_case(ctx, timers, [tuple(x) for x in case["cancels"]], case["engine"], case.get("share", 0))
    except Failure as f:
        return [{"kind": f.kind, "detail": f.detail}]
    return []


if __name__ == "__main__":
    if "--shard" in sys.argv:
        harness.shard_entry(sys.modules[__name__])
