"""C14 - serialized state resumes to identical behaviour."""
import sys, os, json, copy
sys.path.insert(0, os.path.join(os.path.dirname(os.path.abspath(__file__)), "..", "pylib"))
sys.path.insert(0, os.path.dirname(os.path.abspath(__file__)))
import harness, gen, trace, model
from harness import Failure
from chart import *
from chartcase import *
from worker import WorkerCrash, WorkerHang
from hypothesis import strategies as st

PROPERTY = "C14"
LEVEL = "fault_enumeration"
RULE = ("cases = (chart, event history P.S, engine): the interpreter is run on the whole history and serialized at EVERY stable "
        "point (each MACROSTEPPED / IDLE step result: the crash/snapshot points); for each snapshot (all of them up to 8 per run, "
        "evenly thinned above) a fresh interpreter for the same document is deserialized from it and driven with the events "
        "not yet fed at that point. Oracle (round trip / differential): the resumed run's trace (events dequeued incl. pending "
        "self-sent external events, exits, transitions, entries, log values, configurations) equals the original's "
        "continuation from the snapshot point, final data values and final serialized microstepper state are equal. "
        "Rejection: the same snapshot fed to a mutated document (one edit) must be refused with an error, never resumed. "
        "Charts have history states, late binding, data, self-sent events. non-trivial = snapshot configuration differs from "
        "the initial one, the suffix is non-empty and (history recorded or data changed or external queue non-empty at the "
        "snapshot); distinct = hash(document, history, snapshot index, engine)")
ASSUMPTIONS = ["only stable points are snapshotted (the API refuses others)", "stable-configuration notices are not compared (the resumed "
               "interpreter re-announces the stable configuration it was restored into)", "pending delayed events and active invocations are "
               "not covered by the quick tier"]
BUILDS = (("san", ["worker"]),)


def budget(tier):
    if tier == "thorough":
        return {"cases": 8000, "min_nontrivial": 4000}
    return {"cases": 700, "min_nontrivial": 400}


def strip(tr):
    return [e for e in tr if e[0] in ('ev', 'x', 't', 'e', 'log', 'cfg', 'comp', 'finished', 'c')]


def mutate_doc(ch):
    """one structural edit that keeps the document valid"""
    ch2 = copy.deepcopy(ch)
    extra = State('state', id='zz_extra')
    ch2.root.children.append(extra)
    ch2.finish()
    return ch2


def check_case(ctx, ch, events, engine):
    xml = ch.to_xml()
    vars_ = ",".join(v for v, _ in ch.variables)
    base = run_engine(ctx, xml, engine, events, "ser data vars=%s" % vars_ if vars_ else "ser")
    if base.get("exception"):
        raise Failure("exception", {"exception": base["exception"][:300], "signature": "base-exception"})
    if base.get("budget"):
        ctx.notes['skipped_budget'] += 1
        ctx.evaluations += 1
        return
    raw = base["trace"]
    snaps = [i for i, e in enumerate(raw) if e[0] == 'ser']
    if not snaps:
        ctx.evaluations += 1
        return
    if len(snaps) > 8:
        step = len(snaps) / 8.0
        snaps = [snaps[int(k * step)] for k in range(8)]
    init_cfg = next((e[1] for e in raw if e[0] == 'cfg'), None)
    last_ser_base = next((e[1] for e in reversed(raw) if e[0] == 'ser'), None)
    for si in snaps:
        snap = raw[si][1]
        fed = [e[1] for e in raw[:si] if e[0] == 'fed']
        rest = list(events[len(fed):])
        cont_a = strip(trace.normalise(raw[si:]))
        try:
            res = ctx.worker().call("run", xml, engine, "\n".join(rest), "maxsteps=%d ser %s" % (ENGINE_STEPS, ("data vars=%s" % vars_) if vars_ else ""), snap)
        except WorkerCrash as e:
            raise Failure("crash-on-resume", {"stderr": e.stderr[-2500:], "signature": crash_signature(e.stderr)})
        except WorkerHang:
            raise Failure("hang-on-resume", {"signature": "hang"})
        if res.get("exception"):
            raise Failure("resume-rejected-own-snapshot", {"exception": res["exception"][:300], "snapshot": snap[:600], "signature": "own-snapshot-rejected"})
        cont_b = strip(trace.normalise(res["trace"]))
        # the restored configuration itself is reported once more by the worker after the first step: drop a leading cfg duplicate
        if cont_a != cont_b:
            i = next((k for k in range(min(len(cont_a), len(cont_b))) if cont_a[k] != cont_b[k]), min(len(cont_a), len(cont_b)))
            raise Failure("continuation-mismatch", {"engine": engine, "snapshot_index": snaps.index(si), "fed_before": fed, "remaining": rest,
                                                    "window": {"index": i, "original": [list(map(str, x)) for x in cont_a[max(0, i - 5):i + 6]],
                                                               "resumed": [list(map(str, x)) for x in cont_b[max(0, i - 5):i + 6]]},
                                                    "snapshot": snap[:800],
                                                    "signature": [str(cont_a[i])[:40] if i < len(cont_a) else None, str(cont_b[i])[:40] if i < len(cont_b) else None]})
        if base.get("data") != res.get("data"):
            raise Failure("data-mismatch", {"original": base.get("data"), "resumed": res.get("data"), "signature": "data"})
        last_ser_res = next((e[1] for e in reversed(res["trace"]) if e[0] == 'ser'), None)
        if last_ser_base and last_ser_res:
            ja, jb = json.loads(last_ser_base), json.loads(last_ser_res)
            for key in ("microstepper", "datamodel"):
                if ja.get(key) != jb.get(key):
                    raise Failure("final-state-mismatch", {"part": key, "original": ja.get(key), "resumed": jb.get(key), "signature": ["final", key]})
        sj = json.loads(snap)
        ms = sj.get("microstepper", {})
        cfg_at = next((e[1] for e in reversed(raw[:si]) if e[0] == 'cfg'), None)
        hist = bool(ms.get("histories"))
        queued = bool((sj.get("externalQueue") or {}).get("BasicEventQueue")) if isinstance(sj.get("externalQueue"), dict) else False
        nontrivial = cfg_at != init_cfg and bool(rest) and (hist or queued or bool(vars_))
        labels = ['engine-' + engine]
        if hist:
            labels.append('history-recorded')
        if queued:
            labels.append('external-queue-nonempty')
        if ch.binding == 'late':
            labels.append('late-binding')
        ctx.count(harness.h64(xml, "|".join(events), str(snaps.index(si)), engine), nontrivial, labels,
                  sample=lambda: {"document": xml, "events": list(events), "snapshot_after": fed, "snapshot": sj.get("microstepper")})
    # rejection: snapshot of this document into a mutated one
    xml2 = mutate_doc(ch).to_xml()
    snap = raw[snaps[-1]][1]
    try:
        rej = ctx.worker().call("run", xml2, engine, "", "maxsteps=50", snap)
    except WorkerCrash as e:
        raise Failure("crash-on-foreign-snapshot", {"stderr": e.stderr[-2500:], "signature": crash_signature(e.stderr)})
    except WorkerHang:
        raise Failure("hang-on-foreign-snapshot", {"signature": "hang"})
    if not rej.get("exception") or not any(e[0] == 'deserialize-rejected' for e in rej["trace"]):
        raise Failure("foreign-snapshot-accepted", {"trace_head": rej["trace"][:6], "signature": "foreign-accepted"})
    ctx.count(harness.h64(xml, "reject", engine), True, ['foreign-snapshot-rejected'])


DELAY_DOC = '''<scxml xmlns="http://www.w3.org/2005/07/scxml" version="1.0" datamodel="lua" name="d">
<datamodel><data id="n" expr="0"/></datamodel>
<state id="s0">
  <transition event="go" target="s1">%s</transition>
</state>
<state id="s1">
  <transition event="d.*"><assign location="n" expr="n + 1"/><log label="D" expr="_event.name"/></transition>
  <transition event="fin" target="s2"/>
  <transition event="kill.0"><cancel sendid="t0"/></transition>
  <transition event="kill.1"><cancel sendid="t1"/></transition>
  <transition event="kill.2"><cancel sendid="t2"/></transition>
</state>
<state id="s2"/>
</scxml>'''


def check_delayed(ctx, delays, engine, kill=()):
    """pending delayed events must survive a snapshot: 'go' schedules len(delays) delayed self-sends, the snapshot is taken at the
    first stable point after 'go' (all of them still pending: delays >= 150 ms), the resumed interpreter must deliver them all"""
    sends = "".join('<send event="d.%d" delay="%dms" id="t%d"/>' % (i, d, i) for i, d in enumerate(delays))
    xml = DELAY_DOC % sends
    base = run_engine(ctx, xml, engine, ['go'], "ser")
    raw = base["trace"]
    fed_at = next(i for i, e in enumerate(raw) if e[0] == 'fed')
    snap_i = next(i for i, e in enumerate(raw) if e[0] == 'ser' and i > fed_at and any(x[0] == 'be' and x[1] == 's1' for x in raw[:i]))
    snap = raw[snap_i][1]
    try:
        # the continuation: some of the pending events are cancelled by their send id right after the resume
        kill = [k for k in sorted(set(kill)) if k < len(delays)]
        res = ctx.worker().call("run", xml, engine, "\n".join("kill.%d" % k for k in kill), "maxsteps=400 idlewait=%d data vars=n" % (max(delays) + 600),
                                snap, timeout=30)
    except WorkerCrash as e:
        raise Failure("crash-on-resume", {"stderr": e.stderr[-2500:], "signature": crash_signature(e.stderr)})
    except WorkerHang:
        raise Failure("hang-on-resume", {"signature": "hang"})
    if res.get("exception"):
        raise Failure("resume-rejected-own-snapshot", {"exception": res["exception"][:300], "signature": "own-snapshot-rejected"})
    got = sorted(e[1] for e in res["trace"] if e[0] == 'ev' and e[1].startswith('d.'))
    want = sorted("d.%d" % i for i in range(len(delays)) if i not in kill)
    if got != want:
        for f in ctx.kf.known(PROPERTY):
            if f.get("signature", {}).get("kind") == "class" and f["signature"]["class"] == "pending-delayed-events":
                ctx.known_finding(f["id"], {"delays": delays})
                ctx.count(harness.h64("delayed", str(delays), engine), False, ['excluded_by_known_finding'])
                return
        raise Failure("pending-delayed-events-lost" if len(got) < len(want) else "cancelled-delayed-event-delivered-after-resume",
                      {"engine": engine, "delays_ms": delays, "cancelled_after_resume": kill, "expected": want, "delivered_after_resume": got,
                                                      "snapshot_delayQueue": json.loads(snap).get("delayQueue"), "signature": "delayed-lost"})
    ctx.count(harness.h64("delayed", str(delays), str(kill), engine), True, ['pending-delayed-events'] + (['cancel-after-resume'] if kill else []),
              sample={"delays_ms": delays, "cancelled_after_resume": kill, "engine": engine})


def shard_main(ctx):
    p = ctx.params
    mod = sys.modules[__name__]
    if ctx.shard == 0:
        ctx.replay_corpus(mod)
    if ctx.shard < 4:
        ctx.run_hypothesis([st.lists(st.sampled_from([150, 200, 250, 300]), min_size=1, max_size=3), st.sampled_from(['large', 'fast']),
                            st.lists(st.integers(0, 2), max_size=2)],
                           lambda delays, engine, kill: check_delayed(ctx, delays, engine, kill), 3,
                           lambda delays, engine, kill: {"delays": delays, "engine": engine, "kill": kill}, name="delayed")
    o = gen.GenOpts(history_weight=3, max_states=8)
    for engine in ("large", "fast"):
        ctx.run_hypothesis([gen.charts(o, 'lua'), gen.event_histories(7)], lambda ch, evs, engine=engine: check_case(ctx, ch, evs, engine),
                           p["cases"] // (4 * ctx.nshards) + 1, lambda ch, evs, engine=engine: dict(case_repr(ch, evs), engine=engine), name=engine)
        ctx.run_hypothesis([gen.charts(gen.history_profile(), 'null'), gen.event_histories(10, ['a', 'b'])],
                           lambda ch, evs, engine=engine: check_case(ctx, ch, evs, engine),
                           p["cases"] // (4 * ctx.nshards) + 1, lambda ch, evs, engine=engine: dict(case_repr(ch, evs), engine=engine), name="hist" + engine)


def replay(ctx, case):
    if "delays" in case:
        try:
            check_delayed(ctx, case["delays"], case["engine"], case.get("kill", ()))
        except Failure as f:
            return [{"kind": f.kind, "detail": f.detail}]
        return []
    ch, events = harness.unpack(case["pickle"])
    try:
        check_case(ctx, ch, events, case.get("engine", "large"))
    except Failure as f:
        return [{"kind": f.kind, "detail": f.detail}]
    return []


if __name__ == "__main__":
    if "--shard" in sys.argv:
        harness.shard_entry(sys.modules[__name__])
