"""C15 - Data <-> JSON conversion is lossless and the parser robust."""
import sys, os, json, subprocess, glob, shutil, time
sys.path.insert(0, os.path.join(os.path.dirname(os.path.abspath(__file__)), "..", "pylib"))
sys.path.insert(0, os.path.dirname(os.path.abspath(__file__)))
import harness
from harness import Failure, VERIF, WORK
from worker import WorkerCrash, WorkerHang
from hypothesis import strategies as st

PROPERTY = "C15"
LEVEL = "exploration"
RULE = ("three generated streams: (1) Data trees (atoms VERBATIM over all byte values incl. quote, backslash, control "
        "characters, NUL, UTF-8, number-like and empty strings; INTERPRETED numeric/boolean literals; arrays; maps with "
        "arbitrary byte keys; depth <= 4) whose top level is a container: fromJSON(toJSON(d)) must equal d node by node "
        "(atom text and VERBATIM/INTERPRETED type) and toJSON must be a fixed point; (2) Events (name, type, origin, "
        "sendid, invokeid, raw, data tree, namelist, params): Event::fromData(Data(e)) must equal e field by field, also "
        "through JSON text; (3) parser robustness: arbitrary bytes, and valid JSON text damaged by truncation / "
        "duplication / unbalancing, must be parsed or rejected with an ErrorEvent - no sanitizer report, no hang - and an "
        "input that a strict JSON parser accepts must not be rejected; plus a coverage-guided libFuzzer campaign on "
        "Data::fromJSON (accepted values are printed and re-parsed inside the target). non-trivial = tree has "
        "depth >= 2 or a character needing escaping / input passes the '{'/'[' prefix test; distinct = distinct hash")
ASSUMPTIONS = ["Data cannot represent empty containers (they print as null): never generated",
               "top-level atoms are outside the asserted round trip: fromJSON returns the empty value for text not starting "
               "with '{' or '[' by design (NullDataModel relies on it)",
               "equality is structural; the 'type' field of container nodes carries no meaning and is not compared"]
BUILDS = (("san", ["worker"]),)


def budget(tier):
    if tier == "thorough":
        return {"trees": 60000, "events": 20000, "bytes": 80000, "fuzz_seconds": 600, "min_nontrivial": 20000}
    return {"trees": 6000, "events": 2000, "bytes": 8000, "fuzz_seconds": 25, "min_nontrivial": 3000}


# ---- generators -------------------------------------------------------------------------------------
SPECIAL = ['"', '\\', '\n', '\t', '\r', '\x0b', '\x08', '\x0c', '\x00', '\x01', '\x7f', '/', "'", '{', '}', '[', ']', ':', ',',
           'é', '€', '\U0001f600', ' ']


def byte_strings(min_size=0, max_size=8):
    ch = st.one_of(st.sampled_from(SPECIAL), st.characters(min_codepoint=0x20, max_codepoint=0x7e), st.sampled_from(['a', 'b', '1']),
                   st.characters(min_codepoint=0x00, max_codepoint=0x1f), st.characters(min_codepoint=0x7f, max_codepoint=0x2ff))
    return st.lists(ch, min_size=min_size, max_size=max_size).map("".join)


verbatim_atoms = st.one_of(
    byte_strings(1, 8),
    st.sampled_from(['1', '0', '-1', '1.5', 'true', 'false', 'null', 'nil', '1e5', '0x10', ' 1', 'x = 1', 'In("s")', '"', '\\', '\\n', '\\"',
                     '\\u0041', 'a\\', '\x0b']),
).map(lambda s: ('v', s))
interpreted_atoms = st.one_of(
    st.integers(-2 ** 40, 2 ** 40).map(str),
    st.sampled_from(['0', '1', '-1', '16777217', '3.25', '-0.5', '1e10', '123456789012', 'true', 'false', 'null', '0.1']),
).map(lambda s: ('i', s))
atoms = st.one_of(verbatim_atoms, interpreted_atoms)
keys = st.one_of(byte_strings(1, 6), st.sampled_from(['a', 'b', 'key', 'data', 'name', '1', '0', ' ', 'k"', 'k\\', 'k\n']))


def trees(depth=3):
    if depth == 0:
        return atoms
    sub = st.deferred(lambda: trees(depth - 1))
    return st.one_of(
        atoms,
        st.lists(sub, min_size=1, max_size=4).map(lambda l: ('A', l)),
        st.dictionaries(keys, sub, min_size=1, max_size=4).map(lambda d: ('M', d)),
    )


containers = st.one_of(
    st.lists(trees(3), min_size=1, max_size=4).map(lambda l: ('A', l)),
    st.dictionaries(keys, trees(3), min_size=1, max_size=4).map(lambda d: ('M', d)),
)


def wire(t):
    k = t[0]
    if k in ('v', 'i'):
        b = t[1].encode('utf-8', 'surrogatepass')
        return b'a' + k.encode() + str(len(b)).encode() + b':' + b
    if k == 'A':
        return b'A' + str(len(t[1])).encode() + b';' + b"".join(wire(x) for x in t[1])
    if k == 'M':
        out = b'M' + str(len(t[1])).encode() + b';'
        for key in sorted(t[1], key=lambda s: s.encode('utf-8')):
            kb = key.encode('utf-8')
            out += str(len(kb)).encode() + b':' + kb + wire(t[1][key])
        return out
    raise ValueError(t)


def expected_dump(t):
    """what dumpData must print for tree t (bytes >= 0x80 appear latin-1 decoded in the worker's JSON)"""
    k = t[0]
    if k in ('v', 'i'):
        return [k, t[1].encode('utf-8').decode('latin-1')]
    if k == 'A':
        return [expected_dump(x) for x in t[1]]
    return {key.encode('utf-8').decode('latin-1'): expected_dump(v) for key, v in t[1].items()}


def depth(t):
    if t[0] in ('v', 'i'):
        return 0
    if t[0] == 'A':
        return 1 + max(depth(x) for x in t[1])
    return 1 + max(depth(x) for x in t[1].values())


def has_special(t):
    if t[0] in ('v', 'i'):
        return any(c in t[1] for c in '"\\\n\t\r\x0b\x08\x0c\x00') or any(ord(c) > 126 for c in t[1])
    if t[0] == 'A':
        return any(has_special(x) for x in t[1])
    return any(has_special(v) or has_special(('v', k)) for k, v in t[1].items())


def classes(t, out=None):
    out = set() if out is None else out
    if t[0] in ('v', 'i'):
        s = t[1]
        if '\x00' in s:
            out.add('nul-byte')
        if '\x0b' in s:
            out.add('vertical-tab')
        if '"' in s or '\\' in s:
            out.add('quote-or-backslash')
        if any(ord(c) < 0x20 for c in s):
            out.add('control-char')
        if any(ord(c) > 126 for c in s):
            out.add('non-ascii')
        if t[0] == 'v' and s.lstrip('-').replace('.', '', 1).isdigit():
            out.add('number-like-string')
    elif t[0] == 'A':
        out.add('array')
        for x in t[1]:
            classes(x, out)
    else:
        out.add('map')
        for k, v in t[1].items():
            classes(('v', k), out)
            classes(v, out)
    return out


def call(ctx, *args):
    try:
        return ctx.worker().call(*args)
    except WorkerCrash as e:
        from chartcase import crash_signature
        raise Failure("crash", {"cmd": args[0], "stderr": e.stderr[-3000:], "signature": crash_signature(e.stderr)})
    except WorkerHang:
        raise Failure("hang", {"cmd": args[0], "signature": "hang"})


def known_by_class(ctx, cls, example):
    """known findings identified by an input class: signature {kind: 'class', class: name}"""
    for f in ctx.kf.known(PROPERTY):
        sig = f.get("signature", {})
        if sig.get("kind") == "class" and sig.get("class") in cls:
            ctx.known_finding(f["id"], example)
            return True
    return False


def check_tree(ctx, t):
    r = call(ctx, "jsonrt", wire(t))
    cls = classes(t)
    exp = expected_dump(t)
    if r.get("in") != exp:
        raise RuntimeError("harness wire format broken: %r vs %r" % (r.get("in"), exp))
    bad = None
    if "exception" in r:
        bad = ("roundtrip-rejected", {"exception": r["exception"]})
    elif r.get("out") != exp:
        bad = ("roundtrip-mismatch", {"expected": exp, "observed": r.get("out")})
    elif not r.get("json2equal"):
        bad = ("tojson-not-fixed-point", {})
    if bad:
        if known_by_class(ctx, cls, {"tree": repr(t)[:300]}):
            ctx.count(harness.h64(repr(t)), False, ['excluded_by_known_finding'])
            return
        d = dict(bad[1], json=r.get("json", "")[:600], classes=sorted(cls), signature=[bad[0]] + sorted(cls & {'nul-byte', 'vertical-tab', 'control-char', 'quote-or-backslash'}))
        raise Failure(bad[0], d)
    ctx.count(harness.h64(repr(t)), depth(t) >= 2 or has_special(t), cls,
              sample={"tree": repr(t)[:400], "json": r["json"][:400]})


events_s = st.tuples(
    st.sampled_from(['e', 'a.b', 'done.state.s1', 'error.execution', 'x']) | byte_strings(1, 6),
    st.sampled_from([1, 2, 3]),
    byte_strings(0, 6), byte_strings(0, 6), byte_strings(0, 6), byte_strings(0, 6), byte_strings(0, 6),
    st.one_of(st.just(None), trees(2)),
    st.dictionaries(keys, trees(1), max_size=3),
    st.lists(st.tuples(keys, trees(1)), max_size=3),
    st.booleans(),
)


def check_event(ctx, ev):
    name, typ, origin, origintype, sendid, invokeid, raw, data, namelist, params, via_json = ev
    dw = wire(data) if data is not None else b'ai0:'
    nw = wire(('M', namelist)) if namelist else b'M0;'
    pw = b'A' + str(len(params)).encode() + b';' + b"".join(wire(('M', {k: v})) for k, v in params)
    args = ["eventrt", name, str(typ), origin, origintype, sendid, invokeid, raw, dw, nw, pw] + (["json"] if via_json else [])
    r = call(ctx, *args)
    cls = set(['via-json'] if via_json else ['direct'])
    if data is not None:
        cls.add('has-data')
        cls |= classes(data)
    if namelist:
        cls.add('has-namelist')
    if params:
        cls.add('has-params')
    if "exception" in r:
        raise Failure("event-exception", {"exception": r["exception"], "signature": "event-exception"})
    a, b = r["in"], r["out"]
    diff = [k for k in a if a[k] != b.get(k)]
    if via_json and data is None:
        # an event without payload has the empty Data value, which is outside the JSON round trip's domain
        # (it prints as null); through text only events with a payload are compared on 'data'
        diff = [k for k in diff if k != 'data']
    if diff:
        if known_by_class(ctx, cls, {"event": repr(ev)[:300]}):
            ctx.count(harness.h64(repr(ev)), False, ['excluded_by_known_finding'])
            return
        raise Failure("event-roundtrip", {"fields": diff, "in": {k: a[k] for k in diff}, "out": {k: b.get(k) for k in diff},
                                          "via_json": via_json, "signature": ["event"] + diff})
    ctx.count(harness.h64(repr(ev)), data is not None or bool(params) or bool(namelist), cls,
              sample={"event": repr(ev)[:300]})


# ---- robustness stream -------------------------------------------------------------------------------
def render_json(t):
    """an independent JSON printer (for the damaged-text stream)"""
    if t[0] == 'v':
        return json.dumps(t[1])
    if t[0] == 'i':
        return t[1]
    if t[0] == 'A':
        return "[" + ", ".join(render_json(x) for x in t[1]) + "]"
    return "{" + ", ".join(json.dumps(k) + ": " + render_json(v) for k, v in t[1].items()) + "}"


damage_s = st.tuples(containers, st.sampled_from(['truncate', 'dup', 'drop', 'insert', 'none', 'nest']), st.integers(0, 10 ** 6),
                     st.sampled_from(['{', '}', '[', ']', '"', ',', ':', '\\', '\x00', 'e', '-', ' ']))


def damaged(t, how, pos, ch):
    s = render_json(t)
    if not s:
        return s
    p = pos % len(s)
    if how == 'truncate':
        return s[:p]
    if how == 'dup':
        return s[:p] + s[p:] + s[p:]
    if how == 'drop':
        return s[:p] + s[p + 1:]
    if how == 'insert':
        return s[:p] + ch + s[p:]
    if how == 'nest':
        return ("[" * (p % 50)) + s
    return s


raw_bytes_s = st.one_of(
    st.binary(max_size=40).map(lambda b: b'{' + b),
    st.binary(max_size=40).map(lambda b: b'[' + b),
    st.lists(st.sampled_from([b'{', b'}', b'[', b']', b'"', b'a', b':', b',', b'1', b' ', b'\\', b'\n', b'tr', b'null', b'"k"', b'\x00', b'\xff']),
             max_size=30).map(b"".join),
)


def check_bytes(ctx, data):
    if isinstance(data, str):
        data = data.encode('utf-8', 'surrogatepass')
    r = call(ctx, "jsonparse", data)
    stripped = data.strip()
    prefix_ok = stripped[:1] in (b'{', b'[')
    cls = ['accepted' if r.get("ok") and not r.get("empty") else ('rejected' if not r.get("ok") else 'empty')]
    # note: no idempotence demand on arbitrary accepted bytes -- the property only asks for 'a value or a clean failure';
    # the worker still prints and re-parses an accepted value, so toJSON/fromJSON on it are exercised under the sanitizers
    try:
        valid = json.loads(data.decode('utf-8')) is not None
    except Exception:
        valid = False
    if valid:
        cls.append('valid-json-input')
        if not r.get("ok"):
            raise Failure("valid-json-rejected", {"input": data.decode('latin-1')[:300], "exception": r.get("exception"), "signature": "valid-rejected"})
    ctx.count(harness.h64(data), prefix_ok, cls, sample={"input": data.decode('latin-1')[:200], "result": cls[0]})


def run_fuzzer(ctx, seconds, seed):
    """coverage-guided campaign on Data::fromJSON (fuzz build). Only crash-/leak- artifacts count."""
    binp = os.path.join(WORK, "bin", "fuzz_json-fuzz")
    if not os.path.exists(binp):
        ctx.notes['fuzzer_binary_missing'] += 1
        return
    d = os.path.join(WORK, "scratch", "fuzz_json_%d" % os.getpid())
    shutil.rmtree(d, ignore_errors=True)
    os.makedirs(os.path.join(d, "corpus"))
    os.makedirs(os.path.join(d, "art"))
    for i, s in enumerate([b'{"a": 1}', b'[1, 2, "x"]', b'{"k": {"n": [true, null, "s\\n"]}}', b'{ba$b"2"b"}']):
        open(os.path.join(d, "corpus", "seed%d" % i), "wb").write(s)
    env = dict(os.environ, ASAN_OPTIONS="detect_leaks=0:abort_on_error=0", UBSAN_OPTIONS="halt_on_error=1")
    t0 = time.time()
    r = subprocess.run([binp, "-seed=%d" % (seed % (2 ** 31) or 1), "-max_total_time=%d" % seconds, "-max_len=256", "-timeout=10",
                        "-artifact_prefix=" + os.path.join(d, "art") + "/", "-print_final_stats=1", os.path.join(d, "corpus")],
                       stdout=subprocess.PIPE, stderr=subprocess.STDOUT, env=env, cwd=d)
    out = r.stdout.decode("latin-1")
    execs = 0
    for line in out.splitlines():
        if line.startswith("stat::number_of_executed_units:"):
            execs = int(line.split(":")[-1])
    ctx.notes['libfuzzer_execs'] += execs
    ctx.evaluations += execs
    arts = [a for a in glob.glob(os.path.join(d, "art", "*")) if os.path.basename(a).startswith(("crash-", "leak-"))]
    for a in arts[:3]:
        data = open(a, "rb").read()
        # confirm 3x with the deterministic replay (same binary, single input)
        ok = 0
        for i in range(3):
            rr = subprocess.run([binp, a], stdout=subprocess.PIPE, stderr=subprocess.STDOUT, env=env)
            if rr.returncode != 0:
                ok += 1
        if ok == 3:
            from chartcase import crash_signature
            ctx.failures.append({"kind": "fuzz-crash", "detail": {"stderr": rr.stdout.decode("latin-1")[-2500:],
                                                                "signature": crash_signature(rr.stdout.decode("latin-1"))},
                                 "case": {"fuzz_input_hex": data.hex()}})
    shutil.rmtree(d, ignore_errors=True)


def shard_main(ctx):
    p = ctx.params
    n = ctx.nshards
    mod = sys.modules[__name__]
    if ctx.shard == 0:
        ctx.replay_corpus(mod)
    if ctx.shard >= n - 4:
        # four shards run the coverage-guided campaign, the others the generated streams
        run_fuzzer(ctx, p["fuzz_seconds"], harness.derive_seed(ctx.seed, "C15fuzz", ctx.shard))
        return
    g = n - 4
    # bounded exhaustive core: every code point 0 .. 0x2ff (i.e. every single byte 0x00-0x7f and all two-byte UTF-8 sequences up
    # to U+02FF) as string value, array element and map key - alone and between two letters
    k = 0
    try:
        for cp in range(0, 0x300):
            k += 1
            if k % g != ctx.shard:
                continue
            c = chr(cp)
            for sv in (c, 'a' + c + 'b'):
                check_tree(ctx, ('M', {'k': ('v', sv), sv: ('v', 'x'), 'l': ('A', [('v', sv), ('v', 'y')])}))
    except Failure as f:
        ctx.failures.append({"kind": f.kind, "detail": f.detail, "case": {"tree": repr(('M', {'k': ('v', sv)})), "wire_hex": wire(('M', {'k': ('v', sv)})).hex()}})
        return
    ctx.run_hypothesis([containers], lambda t: check_tree(ctx, t), p["trees"] // g + 1, lambda t: {"tree": repr(t), "wire_hex": wire(t).hex()}, name="tree")
    ctx.run_hypothesis([events_s], lambda e: check_event(ctx, e), p["events"] // g + 1, lambda e: {"event": repr(e), "pickle": harness.pack(e)}, name="event")
    ctx.run_hypothesis([damage_s], lambda d: check_bytes(ctx, damaged(*d)), p["bytes"] // (2 * g) + 1,
                       lambda d: {"input_hex": damaged(*d).encode('utf-8', 'surrogatepass').hex()}, name="damaged")
    ctx.run_hypothesis([raw_bytes_s], lambda b: check_bytes(ctx, b), p["bytes"] // (2 * g) + 1, lambda b: {"input_hex": b.hex()}, name="raw")


def replay(ctx, case):
    try:
        if "wire_hex" in case:
            import ast
            check_tree(ctx, ast.literal_eval(case["tree"]))
        elif "pickle" in case:
            check_event(ctx, harness.unpack(case["pickle"]))
        elif "input_hex" in case:
            check_bytes(ctx, bytes.fromhex(case["input_hex"]))
        elif "fuzz_input_hex" in case:
            check_bytes(ctx, bytes.fromhex(case["fuzz_input_hex"]))
    except Failure as f:
        return [{"kind": f.kind, "detail": f.detail}]
    return []


def main(tier, seed):
    builds = [("san", ["worker"]), ("fuzz", ["fuzz_json"])]
    return harness.run_check(sys.modules[__name__], tier, seed, builds=builds)


if __name__ == "__main__":
    if "--shard" in sys.argv:
        harness.shard_entry(sys.modules[__name__])
