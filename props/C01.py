"""C01 - the interpreter (default 'large' engine) follows the W3C step algorithm on every chart."""
import sys, os, json
sys.path.insert(0, os.path.join(os.path.dirname(os.path.abspath(__file__)), "..", "pylib"))
sys.path.insert(0, os.path.dirname(os.path.abspath(__file__)))
import harness, gen, model, trace
from harness import Failure
from chartcase import *

PROPERTY = "C01"
LEVEL = "exploration"
RULE = ("cases = (valid chart, external event history) drawn by Hypothesis strategies (pylib/gen.py; state/parallel/final/"
        "history/initial nesting, internal/external/targetless/multi-target transitions, early/late binding, log/raise/send/"
        "assign/if content) plus an exhaustive enumeration of small charts; oracle = reference transcription of W3C "
        "Appendix D (pylib/model.py) compared entry by entry (exits, transitions, entries, executed elements, log values, "
        "dequeued events, configuration after every microstep, final data). non-trivial = model run has >= 3 microsteps "
        "and exercises one of parallel/history/multi-target/internal/targetless/pre-emption/done.state; distinct = "
        "distinct hash of (document text, history)")
ASSUMPTIONS = ["reference model transcribes W3C SCXML 1.0 Appendix D correctly (self-tested on hand-written expectations)",
               "fragment: no invoke, no delayed send, lua/promela/null datamodels, integer data",
               "parallel directly nested in parallel is not generated (Rec. prose and Appendix D disagree on done.state there)"]


def budget(tier):
    if tier == "thorough":
        return {"examples": 3000, "exh_states": 6, "min_nontrivial": 2000}
    return {"examples": 350, "exh_states": 5, "min_nontrivial": 300}


QUIRKS = None


def expected_traces(ctx, ch, events):
    m, exp = run_model(ch, events)
    return m, exp


def check_case(ctx, ch, events, engine="large", dm=None, extra_labels=()):
    m, exp = run_model(ch, events)
    xml = ch.to_xml(dm)
    vars_ = ",".join(v for v, _ in ch.variables)
    r = run_engine(ctx, xml, engine, events, "data vars=%s" % vars_ if vars_ else "")
    if r.get("exception"):
        raise Failure("exception", {"exception": r["exception"], "signature": r["exception"][:80]})
    obs = trace.normalise(r["trace"])
    i = compare_prefix(exp, obs)
    labels = set(m.labels) | set(extra_labels)
    if exp and exp[-1] == ('budget',):
        labels.add('budget-prefix-only')
    if i < 0 and 'budget-prefix-only' not in labels and vars_:
        # final data values
        got = r.get("data", {})
        for v in m.vars:
            g = got.get(v)
            gv = trace.norm_value(g[1]) if isinstance(g, list) and len(g) == 2 else repr(g)
            if gv != str(m.vars[v]):
                raise Failure("data-mismatch", {"var": v, "expected": m.vars[v], "observed": g, "signature": "data"})
    if i >= 0:
        # known findings: re-evaluate with each recorded quirk
        for quirk, fid in ctx.kf.quirk_ids(PROPERTY).items():
            m2, exp2 = run_model(ch, events, quirks=[quirk])
            if compare_prefix(exp2, obs) < 0:
                ctx.known_finding(fid, {"xml": xml, "events": list(events)})
                ctx.count(case_hash(ch, events), False, ['excluded_by_known_finding'])
                return
        raise Failure("trace-mismatch", {"engine": engine, "window": trace.diff_window(exp, obs, i),
                                         "labels": sorted(labels),
                                         "signature": [str(exp[i]) if i < len(exp) else None, str(obs[i]) if i < len(obs) else None]})
    ctx.count(case_hash(ch, events), nontrivial_c01(m), labels,
              sample=lambda: {"document": xml, "events": list(events), "model_trace_head": [list(map(str, e)) for e in exp[:25]]})


def shard_main(ctx):
    p = ctx.params
    if ctx.shard == 0:
        ctx.replay_witnesses(sys.modules[__name__])
        ctx.replay_corpus(sys.modules[__name__])
    # bounded exhaustive core: all small charts (see gen.enum_small_charts), event history a,a
    try:
        for ch in gen.enum_small_charts(p["exh_states"], 2, ctx.shard, ctx.nshards, only_parallel_above=p["exh_states"] - 2):
            check_case(ctx, ch, ['a', 'a'], dm='null', extra_labels=['exhaustive-core'])
        ctx.exhaustive = True
    except Failure as f:
        ctx.failures.append({"kind": f.kind, "detail": f.detail, "case": case_repr(ch, ['a', 'a'])})
        ctx.exhaustive = False
        return
    o = gen.GenOpts()
    ctx.run_hypothesis([gen.charts(o, 'lua'), gen.event_histories()],
                       lambda ch, evs: check_case(ctx, ch, evs), p["examples"], case_repr)
    # history-focused profile: long histories over two event names on charts dense with history states
    ctx.run_hypothesis([gen.charts(gen.history_profile(), 'null'), gen.event_histories(12, ['a', 'b'])],
                       lambda ch, evs: check_case(ctx, ch, evs, dm='null', extra_labels=['history-profile']), p["examples"], case_repr,
                       name="history")
    # data-flow profile: assignments (also in targetless transitions) that enable guarded eventless transitions
    ctx.run_hypothesis([gen.dataflow_charts('lua'), gen.event_histories(8, ['a', 'b'])],
                       lambda ch, evs: check_case(ctx, ch, evs, extra_labels=['dataflow-profile']), p["examples"], case_repr,
                       name="dataflow")
    # completion of parallel states with histories around (done.state events)
    ctx.run_hypothesis([gen.parallel_final_charts('lua'), gen.event_histories(8, ['a', 'b', 'c', 'a', 'b', 'c', 'leave', 'back'])],
                       lambda ch, evs: check_case(ctx, ch, evs, extra_labels=['parallel-final-profile']), p["examples"] // 2, case_repr, name="pardone")
    # completion profile: deep / multi-target initial attributes and <initial> elements on nested charts
    ctx.run_hypothesis([gen.charts(gen.completion_profile(), 'lua'), gen.event_histories(5, ['a', 'b'])],
                       lambda ch, evs: check_case(ctx, ch, evs, extra_labels=['completion-profile']), p["examples"], case_repr,
                       name="completion")


def replay(ctx, case):
    ch, events = harness.unpack(case["pickle"])
    try:
        check_case(ctx, ch, events)
    except Failure as f:
        return [{"kind": f.kind, "detail": f.detail}]
    return []


def extra_coverage(results):
    return {"exhaustive_core": "all charts with <= N proper states (trees above N-2 states only when they contain a parallel state), "
            "all kind assignments, all sets of <= 2 transitions over {targetless, any single target, internal variant}, events a,a",
            "exhaustive_refers_to": "the exhaustive core only; the Hypothesis stream is sampled"}


if __name__ == "__main__":
    if "--shard" in sys.argv:
        harness.shard_entry(sys.modules[__name__])
