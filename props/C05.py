"""C05 - transpilers compute the chart's structural relations correctly."""
import sys, os, json, re, itertools
import xml.etree.ElementTree as ET
sys.path.insert(0, os.path.join(os.path.dirname(os.path.abspath(__file__)), "..", "pylib"))
sys.path.insert(0, os.path.dirname(os.path.abspath(__file__)))
import harness, gen
from harness import Failure
from chart import *
from chartcase import case_repr, case_hash, crash_signature
from worker import WorkerCrash, WorkerHang
from hypothesis import strategies as st

PROPERTY = "C05"
LEVEL = "translation_validation"
RULE = ("programs = state trees with transitions: exhaustive enumeration of all trees with <= N proper states (N=5 quick, 6 "
        "thorough; every kind assignment state/parallel/final, optional history (shallow/deep) and <initial> element or "
        "initial attribute per compound, and a transition menu with internal/external, targetless and one- or two-target "
        "lists) plus Hypothesis-generated larger trees (<= 14 states, depth 4). For each, the structural tables the "
        "transpiler annotates on the DOM (documentOrder, postFixOrder, parent, childBools, ancBools, completionBools incl. "
        "history completion, targetBools, exitSetBools, conflictBools) are compared with the sets computed from the "
        "generator's own AST by the Recommendation's definitions (conflicts: the transpilers' documented relation), and the "
        "tables embedded in the emitted C text (hex initialisers and their bit-string comments, state/transition order, "
        "parent/source indices) must equal the annotations. non-trivial = tree depth >= 2 and a transition whose domain is "
        "not the root; distinct = distinct document")
ASSUMPTIONS = ["exit sets and domains of transitions that target a history state are computed with the pseudo-state's position "
               "(as the static tables must); ids need no escaping",
               "Promela and VHDL embeddings of the same tables are exercised behaviourally by C06 / C18"]
BUILDS = (("san", ["worker"]),)

SCXML = "{http://www.w3.org/2005/07/scxml}"


def budget(tier):
    if tier == "thorough":
        return {"exh_states": 6, "random": 8000, "min_nontrivial": 3000}
    return {"exh_states": 5, "random": 1200, "min_nontrivial": 300}


# ---- expected tables from the AST -----------------------------------------------------------------------
def raw_domain(ch, t):
    if not t.targets:
        return None
    tg = [ch.by_id[x] for x in t.targets]
    src = t.source
    if t.internal and src.is_compound() and all(x.is_descendant_of(src) for x in tg):
        return src
    for anc in src.ancestors():
        if anc.kind == 'scxml' or anc.is_compound():
            if all(x.is_descendant_of(anc) for x in tg):
                return anc
    return ch.root


def exit_set(ch, t):
    d = raw_domain(ch, t)
    if d is None:
        return set()
    return set(s.id for s in d.descendants() if s.kind in ('state', 'parallel', 'final'))


def completion(ch, s):
    if s.kind == 'history':
        if s.hist_type == 'deep':
            return set(d.id for d in s.parent.descendants() if d.kind in ('state', 'parallel', 'final'))
        return set(c.id for c in s.parent.proper_children())
    if s.kind == 'parallel':
        return set(c.id for c in s.proper_children())
    if s.kind in ('state', 'scxml') and s.proper_children():
        if s.initial_attr:
            return set(s.initial_attr)
        for c in s.children:
            if c.kind == 'initial':
                return {c.id}
        return {s.proper_children()[0].id}
    return None  # atomic / final / initial: not compared


def check_chart(ctx, ch, label_extra=()):
    xml = ch.to_xml('null')
    try:
        r = ctx.worker().call("transform", xml, "c")
    except WorkerCrash as e:
        raise Failure("crash", {"stderr": e.stderr[-2500:], "signature": crash_signature(e.stderr)})
    except WorkerHang:
        raise Failure("hang", {"signature": "hang"})
    if r.get("exception"):
        raise Failure("transform-exception", {"exception": r["exception"], "signature": r["exception"][:60]})
    ann = r["annotated"]
    ann = ann.replace('encoding="UTF-16"', 'encoding="UTF-8"')
    root = ET.fromstring(ann.encode("utf-8"))
    states, trans = {}, {}
    order_seen = []

    def walk(el):
        tag = el.tag.replace(SCXML, "")
        if tag in ('scxml', 'state', 'parallel', 'final', 'history', 'initial'):
            vid = el.get('vid')
            states[vid] = el
            order_seen.append(vid)
        if tag == 'transition':
            trans[el.get('vid')] = el
        for c in el:
            walk(c)
    walk(root)

    def fail(kind, **kw):
        raise Failure(kind, dict(kw, signature=[kind, kw.get("table", "")]))
    # document order = position in the (re-sorted) annotated DOM
    idx = {}
    for vid, el in states.items():
        idx[vid] = int(el.get('documentOrder'))
    if sorted(idx.values()) != list(range(len(ch.states))):
        fail("table-mismatch", table="documentOrder", observed=idx)
    for pos, vid in enumerate(order_seen):
        if idx[vid] != pos:
            fail("table-mismatch", table="documentOrder", state=vid, expected=pos, observed=idx[vid])
    n = len(idx)
    byidx = {v: k for k, v in idx.items()}

    def bits(names):
        b = ['0'] * n
        for x in names:
            b[idx[x]] = '1'
        return "".join(b)
    proper_mask = [byidx[i] for i in range(n)]
    for s in ch.states:
        el = states[s.id]
        if s.parent is not None and int(el.get('parent')) != idx[s.parent.id]:
            fail("table-mismatch", table="parent", state=s.id, expected=idx[s.parent.id], observed=el.get('parent'))
        exp = bits(c.id for c in s.children)
        if el.get('childBools') != exp:
            fail("table-mismatch", table="childBools", state=s.id, expected=exp, observed=el.get('childBools'))
        exp = bits(a.id for a in s.ancestors())
        if el.get('ancBools') != exp:
            fail("table-mismatch", table="ancBools", state=s.id, expected=exp, observed=el.get('ancBools'))
        comp = completion(ch, s)
        if comp is not None:
            exp = bits(comp)
            got = el.get('completionBools')
            if s.kind == 'history' and got is not None and len(got) == n:
                # pseudo-state bits in a history's completion can never match a configuration or a remembered state:
                # they carry no meaning and are masked (the transpiler lists <initial> siblings there)
                got = "".join('0' if ch.by_id[byidx[i]].kind in ('initial', 'history') else got[i] for i in range(n))
            if got != exp:
                fail("table-mismatch", table="completionBools", state=s.id, state_kind=s.kind + ("-" + s.hist_type if s.kind == 'history' else ""),
                     expected=exp, observed=el.get('completionBools'))
        has_hist = any(c.kind == 'history' for c in s.children)
        if has_hist != (el.get('hasHistoryChild') == 'yes') and s.kind != 'history':
            fail("table-mismatch", table="hasHistoryChild", state=s.id, expected=has_hist, observed=el.get('hasHistoryChild'))
    # transitions: post-fix order = states in post order, own transitions in document order
    post = []

    def pwalk(s):
        kids = sorted(s.children, key=lambda c: idx[c.id])
        for c in kids:
            pwalk(c)
        post.extend(s.transitions)
    pwalk(ch.root)
    tix = {}
    for i, t in enumerate(post):
        el = trans[t.vid]
        tix[t.vid] = i
        if int(el.get('postFixOrder')) != i:
            fail("table-mismatch", table="postFixOrder", transition=t.vid, expected=i, observed=el.get('postFixOrder'))
        if int(el.get('source')) != idx[t.source.id]:
            fail("table-mismatch", table="source", transition=t.vid, expected=idx[t.source.id], observed=el.get('source'))
    nontrivial_domain = False
    normal = [i for i, t in enumerate(post) if t.kind == 'normal']
    for t in post:
        el = trans[t.vid]
        if t.targets:
            exp = bits(t.targets)
            if el.get('targetBools') != exp:
                fail("table-mismatch", table="targetBools", transition=t.vid, expected=exp, observed=el.get('targetBools'))
        if t.kind != 'normal':
            continue  # initial / history transitions are never selected: their exit set and conflicts are meaningless
        exp = bits(exit_set(ch, t))
        if el.get('exitSetBools') != exp:
            fail("table-mismatch", table="exitSetBools", transition=t.vid, targets=t.targets, internal=t.internal,
                 expected=exp, observed=el.get('exitSetBools'))
        d = raw_domain(ch, t)
        if d is not None and d.kind != 'scxml':
            nontrivial_domain = True
        cb = []
        for u in post:
            c = (exit_set(ch, t) & exit_set(ch, u)) or t.source is u.source or t.source.is_descendant_of(u.source) or u.source.is_descendant_of(t.source)
            cb.append('1' if c else '0')
        exp = "".join(cb[i] for i in normal)
        got = el.get('conflictBools') or ""
        got = "".join(got[i] for i in normal) if len(got) == len(post) else got
        if got != exp:
            fail("table-mismatch", table="conflictBools", transition=t.vid, expected=exp, observed=el.get('conflictBools'))
    # ---- the tables embedded in the emitted C text ----------------------------------------------------------
    text = r["text"]
    check_c_text(text, ch, states, trans, idx, tix, post, fail)
    depth = max(len(s.ancestors()) for s in ch.states)
    labels = set(label_extra)
    for s in ch.states:
        if s.kind == 'history':
            labels.add('history-' + s.hist_type)
        if s.kind == 'initial':
            labels.add('initial-element')
        if s.kind == 'parallel':
            labels.add('parallel')
        if s.initial_attr and len(s.initial_attr) > 1:
            labels.add('multi-initial')
    for t in ch.transitions:
        if t.internal:
            labels.add('internal')
        if len(t.targets) > 1:
            labels.add('multi-target')
    ctx.count(harness.h64(xml), depth >= 2 and nontrivial_domain, labels, sample=lambda: {"document": xml})


HEXBITS = re.compile(r'/\*\s*(children|completion|ancestors|target|conflicts|exit set)\s*\*/\s*\{\s*([0-9a-fx, ]+)/\*\s*([01]+)\s*\*/\s*\}')


def check_c_text(text, ch, states, trans, idx, tix, post, fail):
    def hex_to_bits(hexes, nbits):
        out = []
        for h in [x.strip() for x in hexes.split(',') if x.strip()]:
            v = int(h, 16)
            for b in range(8):
                out.append('1' if v & (1 << b) else '0')
        return "".join(out)[:nbits], "".join(out)[nbits:]
    # split into state blocks and transition blocks
    sblocks = re.findall(r'\{\s*/\* state number (\d+) \*/(.*?)\n    \}', text, re.S)
    tblocks = re.findall(r'\{\s*/\* transition number (\d+) with priority (\d+)(.*?)\n    \}', text, re.S)
    if len(sblocks) != len(idx):
        fail("c-text-mismatch", table="nr_states", expected=len(idx), observed=len(sblocks))
    if len(tblocks) != len(post):
        fail("c-text-mismatch", table="nr_transitions", expected=len(post), observed=len(tblocks))
    byidx = {v: k for k, v in idx.items()}
    for num, body in sblocks:
        el = states[byidx[int(num)]]
        m = re.search(r'/\* parent\s*\*/\s*(\d+)', body)
        if el.get('parent') is not None and int(m.group(1)) != int(el.get('parent')):
            fail("c-text-mismatch", table="parent", state=byidx[int(num)], expected=el.get('parent'), observed=m.group(1))
        found = {k: (h, b) for k, h, b in HEXBITS.findall(body)}
        for key, attr in (('children', 'childBools'), ('completion', 'completionBools'), ('ancestors', 'ancBools')):
            if key not in found:
                fail("c-text-mismatch", table=key, state=byidx[int(num)], observed="missing")
            h, b = found[key]
            hb, rest = hex_to_bits(h, len(b))
            if hb != b or '1' in rest:
                fail("c-text-mismatch", table=key + "-hex-vs-comment", state=byidx[int(num)], hex=h, comment=b)
            if b != el.get(attr):
                fail("c-text-mismatch", table=key, state=byidx[int(num)], expected=el.get(attr), observed=b)
    byt = {v: k for k, v in tix.items()}
    for pos, (docnum, prio, body) in enumerate(tblocks):
        if int(prio) != pos:
            fail("c-text-mismatch", table="priority-order", expected=pos, observed=prio)
        el = trans[byt[int(prio)]]
        if int(docnum) != int(el.get('documentOrder')):
            fail("c-text-mismatch", table="transition-number", expected=el.get('documentOrder'), observed=docnum)
        m = re.search(r'/\* source\s*\*/\s*(\d+)', body)
        if int(m.group(1)) != int(el.get('source')):
            fail("c-text-mismatch", table="source", transition=byt[int(prio)], expected=el.get('source'), observed=m.group(1))
        found = {k: (h, b) for k, h, b in HEXBITS.findall(body)}
        for key, attr in (('target', 'targetBools'), ('conflicts', 'conflictBools'), ('exit set', 'exitSetBools')):
            if key not in found:
                if key == 'target' and el.get(attr) is None:
                    continue
                fail("c-text-mismatch", table=key, transition=byt[int(prio)], observed="missing")
            h, b = found[key]
            hb, rest = hex_to_bits(h, len(b))
            if hb != b or '1' in rest:
                fail("c-text-mismatch", table=key + "-hex-vs-comment", transition=byt[int(prio)], hex=h, comment=b)
            exp = el.get(attr)
            if exp is None and key == 'target':
                exp = '0' * len(b)
            if b != exp:
                fail("c-text-mismatch", table=key, transition=byt[int(prio)], expected=exp, observed=b)


# ---- exhaustive enumeration of small trees ------------------------------------------------------------------
def enum_shapes(n):
    """all ordered forests with n nodes, as nested lists"""
    if n == 0:
        yield []
        return
    for k in range(1, n + 1):           # size of the first tree
        for first in enum_shapes(k - 1):
            for rest in enum_shapes(n - k):
                yield [first] + rest


def build_trees(shape, counter, depth=0, in_parallel=False):
    """yield lists of State for a forest shape with all kind assignments"""
    if not shape:
        yield []
        return
    first, rest = shape[0], shape[1:]
    kinds = ['state'] if first else (['state'] if in_parallel else ['state', 'final'])
    if first and not in_parallel and len(first) >= 1:
        kinds = ['state', 'parallel']
    elif first and in_parallel:
        kinds = ['state']
    for kind in kinds:
        for kids in build_trees(first, counter, depth + 1, kind == 'parallel'):
            for others in build_trees(rest, counter, depth, in_parallel):
                yield [(kind, kids)] + others


def realise(forest):
    cnt = [0]

    def mk(node):
        kind, kids = node
        s = State(kind, id="s%d" % cnt[0])
        cnt[0] += 1
        s.children = [mk(k) for k in kids]
        return s
    return [mk(x) for x in forest]


def exhaustive_charts(nstates, shard, nshards, per_tree_variants=6):
    import random
    i = 0
    for n in range(1, nstates + 1):
        for shape in enum_shapes(n):
            for forest in build_trees(shape, None):
                if all(k == 'final' for k, _ in forest):
                    continue
                i += 1
                if i % nshards != shard:
                    continue
                # deterministic variants: history / initial decorations and transition menus chosen by a local PRNG seeded
                # from the tree index (part of the enumeration, not of the oracle)
                rnd = random.Random(i)
                for v in range(per_tree_variants):
                    tops = realise(forest)
                    root = State('scxml', children=tops)
                    tmp = Chart(root, 'null')
                    proper = [s for s in tmp.states if s.kind != 'scxml']
                    hcount = 0
                    deep_parents = set()
                    for s in proper:
                        if (s.is_compound() or s.kind == 'parallel') and rnd.random() < 0.4:
                            if any(a in deep_parents for a in s.ancestors()):
                                continue  # nested history below a deep history: known finding F-C05-1, excluded by construction
                            h = State('history', id="h%d" % hcount, hist_type=rnd.choice(['shallow', 'deep']))
                            if h.hist_type == 'deep':
                                deep_parents.add(s)
                            hcount += 1
                            pc = s.proper_children()
                            h.transitions = [Trans(targets=[c.id for c in pc] if s.kind == 'parallel' else [rnd.choice(pc).id])]
                            s.children.insert(rnd.choice([0, len(s.children)]), h)
                    for s in [root] + proper:
                        if s.is_compound():
                            pc = s.proper_children()
                            style = rnd.choice(['first', 'attr', 'elem', 'deep'])
                            desc = [d for d in s.descendants() if d.kind in ('state', 'parallel', 'final')]
                            if style == 'attr':
                                s.initial_attr = [rnd.choice(pc).id]
                            elif style == 'deep':
                                t0 = rnd.choice(desc)
                                s.initial_attr = [t0.id]
                                others = [d for d in desc if gen.lca_is_parallel(t0, d)]
                                if others and rnd.random() < 0.5:
                                    s.initial_attr.append(rnd.choice(others).id)
                            elif style == 'elem' and s.kind != 'scxml':
                                ini = State('initial', id="i_" + s.id, transitions=[Trans(targets=[rnd.choice(desc).id])])
                                s.children.insert(rnd.choice([0, len(s.children)]), ini)
                    ids = [s.id for s in proper] + ["h%d" % k for k in range(hcount)]
                    for s in proper:
                        if s.kind == 'final':
                            continue
                        for k in range(rnd.choice([0, 1, 1, 2])):
                            t = Trans(events=[rnd.choice(['a', 'b'])] if rnd.random() < 0.8 else [])
                            nt = rnd.choice([0, 1, 1, 1, 2])
                            if nt >= 1:
                                first = rnd.choice(ids)
                                t.targets = [first]
                                if nt == 2 and not first.startswith('h'):
                                    others = [d.id for d in proper if gen.lca_is_parallel(tmp.by_id[first], d)]
                                    if others:
                                        t.targets.append(rnd.choice(others))
                            t.internal = bool(t.targets) and rnd.random() < 0.3
                            s.transitions.append(t)
                    yield Chart(root, 'null')


def shard_main(ctx):
    p = ctx.params
    if ctx.shard == 0:
        ctx.replay_witnesses(sys.modules[__name__])
        ctx.replay_corpus(sys.modules[__name__])
    try:
        for ch in exhaustive_charts(p["exh_states"], ctx.shard, ctx.nshards):
            check_chart(ctx, ch, ['exhaustive-tree'])
        ctx.exhaustive = True
    except Failure as f:
        ctx.failures.append({"kind": f.kind, "detail": f.detail, "case": case_repr(ch, [])})
        ctx.exhaustive = False
        return
    o = gen.GenOpts(max_states=14, max_depth=4, content=False, data=False, conds=False)
    ctx.run_hypothesis([gen.charts(o, 'null')], lambda ch: check_chart(ctx, ch, ['random-tree']), p["random"] // ctx.nshards + 1,
                       lambda ch: case_repr(ch, []))


def replay(ctx, case):
    ch, _ = harness.unpack(case["pickle"])
    try:
        check_chart(ctx, ch)
    except Failure as f:
        return [{"kind": f.kind, "detail": f.detail}]
    return []


def extra_coverage(results):
    n = sum(r["evaluations"] for r in results)
    return {"programs": n, "disagreements_checked": 0,
            "explanation": "exhaustive flag refers to the tree shapes x kind assignments up to the bound; decorations (history/initial/transitions) are sampled per tree"}


if __name__ == "__main__":
    if "--shard" in sys.argv:
        harness.shard_entry(sys.modules[__name__])
