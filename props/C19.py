"""C19 - validation verdicts are sound and do not reject valid charts."""
import sys, os, json, re
import xml.etree.ElementTree as ET
sys.path.insert(0, os.path.join(os.path.dirname(os.path.abspath(__file__)), "..", "pylib"))
sys.path.insert(0, os.path.dirname(os.path.abspath(__file__)))
import harness, gen, trace, model
from harness import Failure
from chart import *
from chartcase import *
from worker import WorkerCrash, WorkerHang
from hypothesis import strategies as st
from props.C07 import damage, damage_ops

PROPERTY = "C19"
LEVEL = "exploration"
RULE = ("three generated streams. (a) soundness: documents generated freely (target / initial lists not forced to be legal) and "
        "then damaged structurally (dangling targets, dropped ids and attributes, duplicate ids, renamed / misplaced elements, "
        "wrong parents); whenever validate() reports no FATAL issue the document is run under both engines with a generated "
        "event history and transpiled by the C, Promela and VHDL back-ends: no crash, no exception at initialisation, and "
        "after every step the configuration - judged on the damaged document's own state tree - is legal (Rec. 3.11). "
        "(b) completeness: charts that are valid by construction, rendered with real lua and promela expressions (conditions, "
        "log/assign/data expressions): validate() must report no FATAL issue and no 'Syntax error' warning. (c) validate() "
        "itself must terminate without crashing on every document of (a) (and on the libFuzzer stream of C07, whose target "
        "calls it). non-trivial = (a) validator accepted the damaged document and a run happened; (b) chart has >= 1 cond and "
        ">= 1 expr; distinct = hash(document)")
ASSUMPTIONS = ["'valid' in (b) is by construction of the generator (same generator whose charts the reference model executes)",
               "warnings other than syntax errors are ignored"]
BUILDS = (("san", ["worker"]),)

NS = "{http://www.w3.org/2005/07/scxml}"


def budget(tier):
    if tier == "thorough":
        return {"damaged": 30000, "valid": 12000, "min_nontrivial": 6000}
    return {"damaged": 2400, "valid": 1200, "min_nontrivial": 600}


def xml_tree(xml):
    """-> (parent, children, kind) dicts keyed by vid-or-id taken from the (damaged) document itself"""
    root = ET.fromstring(xml.encode("utf-8"))
    parent, children, kind = {}, {}, {}

    def name(el):
        return el.get("vid") or el.get("id") or ("#root" if el.tag == NS + "scxml" else None)

    def walk(el, par):
        tag = el.tag.replace(NS, "")
        if tag == "scxml" and par is not None:
            return   # a nested <scxml> element is another machine (or garbage), not a state of this one
        if tag in ("scxml", "state", "parallel", "final"):
            n = name(el)
            if n is None:
                n = "?%d" % len(kind)
            kind[n] = tag
            parent[n] = par
            children.setdefault(n, [])
            if par is not None:
                children[par].append(n)
            for c in el:
                walk(c, n)
        # state-like elements below non-state elements are not part of the state tree
    walk(root, None)
    return parent, children, kind


def legal_on_tree(parent, children, kind, cfg):
    ids = set(cfg)
    if any(i not in kind for i in cfg):
        # a state without id (the damage removed it) is reported by the engine under an XPath the document-side tree does not
        # know: such a configuration cannot be judged by name
        return None
    for i in cfg:
        if i not in kind:
            continue   # an element the damaged document names differently: cannot be judged
        p = parent.get(i)
        if p is not None and p not in ids:
            return "parent of %s (%s) not active" % (i, p)
        kids = children.get(i, [])
        if kind[i] == "final":
            continue   # a <final> is atomic for the engines whatever a damaged document nests inside it
        if any(c.startswith('?') for c in kids):
            continue   # a child without a name cannot be recognised in the configuration
        if kind[i] == "parallel":
            for c in kids:
                if c not in ids:
                    return "parallel %s active without child %s" % (i, c)
        elif kids:
            n = sum(1 for c in kids if c in ids)
            if n != 1:
                return "compound %s has %d active children" % (i, n)
    return None


def check_damaged(ctx, ch, events, ops):
    xml = damage(ch.to_xml('lua'), ops)
    try:
        parent, children, kind = xml_tree(xml)
    except Exception:
        ctx.notes['not-wellformed-after-damage'] += 1
        ctx.evaluations += 1
        return
    try:
        v = ctx.worker().call("validate", xml)
    except WorkerCrash as e:
        raise Failure("validate-crash", {"stderr": e.stderr[-2500:], "signature": crash_signature(e.stderr)})
    except WorkerHang:
        raise Failure("validate-hang", {"signature": "validate-hang"})
    labels = ["op-" + o for o, _ in ops]
    if v.get("exception"):
        ctx.count(harness.h64(xml), False, labels + ['rejected-at-load'])
        return
    fatal = [i for i in v["issues"] if i[0] == 0]
    if fatal:
        ctx.count(harness.h64(xml), False, labels + ['validator-fatal'])
        return
    # accepted: must run and transpile safely
    ids_unique = True
    seen = set()
    for m in re.finditer(r'<(?:state|parallel|final|history)\b[^>]*\sid="([^"]*)"', xml):
        if m.group(1) in seen:
            ids_unique = False
        seen.add(m.group(1))
    for engine in ("large", "fast"):
        r = run_engine(ctx, xml, engine, events)   # crash / hang -> Failure
        if r.get("exception"):
            raise Failure("accepted-document-fails-at-run", {"engine": engine, "exception": r["exception"][:400], "document": xml[:1500],
                                                             "issues": v["issues"][:6], "signature": ["run-exception", r["exception"][:40]]})
        done = False
        for i, e in enumerate(r["trace"]):
            if e[0] == 'bcomp':
                done = True
            if e[0] == 'cfg' and not done and ids_unique:
                msg = legal_on_tree(parent, children, kind, e[1])
                if msg:
                    raise Failure("accepted-document-illegal-configuration", {"engine": engine, "message": msg, "configuration": e[1],
                                                                              "document": xml[:1500], "issues": v["issues"][:6],
                                                                              "signature": ["illegal", msg.split(' ')[0]]})
    for be in ("c", "pml", "vhdl"):
        try:
            ctx.worker().call("transform", xml.replace('datamodel="lua"', 'datamodel="promela"') if be == 'pml' else xml, be)
        except WorkerCrash as e:
            raise Failure("accepted-document-crashes-transpiler", {"backend": be, "stderr": e.stderr[-2500:], "document": xml[:1500],
                                                                   "signature": [be, crash_signature(e.stderr)]})
        except WorkerHang:
            raise Failure("transpiler-hang", {"backend": be, "signature": [be, "hang"]})
    ctx.count(harness.h64(xml), True, labels + ['accepted-and-run'], sample={"document": xml[:1200], "events": list(events), "issues": v["issues"][:4]})


def check_valid(ctx, ch, dm):
    xml = ch.to_xml(dm)
    try:
        v = ctx.worker().call("validate", xml)
    except WorkerCrash as e:
        raise Failure("validate-crash", {"stderr": e.stderr[-2500:], "signature": crash_signature(e.stderr)})
    except WorkerHang:
        raise Failure("validate-hang", {"signature": "validate-hang"})
    if v.get("exception"):
        raise Failure("valid-document-rejected", {"exception": v["exception"][:300], "signature": "load"})
    bad = [i for i in v["issues"] if i[0] == 0 or 'yntax error' in i[1]]
    if bad:
        raise Failure("valid-document-reported", {"datamodel": dm, "issues": bad[:5], "signature": [dm, bad[0][1][:40]]})
    nconds = sum(1 for t in ch.transitions if t.cond is not None)
    nexpr = sum(1 for x in ch.execs.values() if x.kind in ('log', 'assign'))
    ctx.count(harness.h64(xml), nconds >= 1 and nexpr >= 1, ['dm-' + dm], sample={"document": xml[:1200]})


def shard_main(ctx):
    p = ctx.params
    n = ctx.nshards
    mod = sys.modules[__name__]
    if ctx.shard == 0:
        ctx.replay_corpus(mod)
    ol = gen.GenOpts(loose=True, max_states=7)
    ctx.run_hypothesis([gen.charts(ol, 'lua'), gen.event_histories(4), damage_ops], lambda ch, evs, ops: check_damaged(ctx, ch, evs, ops),
                       p["damaged"] // (2 * n) + 1, lambda ch, evs, ops: dict(case_repr(ch, evs), ops=ops), name="damaged")
    # structurally loose but undamaged documents: the validator alone decides
    ctx.run_hypothesis([gen.charts(ol, 'lua'), gen.event_histories(4)], lambda ch, evs: check_damaged(ctx, ch, evs, []),
                       p["damaged"] // (2 * n) + 1, lambda ch, evs: dict(case_repr(ch, evs), ops=[]), name="loose")
    for dm in ('lua', 'promela'):
        od = gen.GenOpts() if dm == 'lua' else gen.GenOpts(late_binding=False)
        ctx.run_hypothesis([gen.charts(od, dm)], lambda ch, dm=dm: check_valid(ctx, ch, dm), p["valid"] // (2 * n) + 1,
                           lambda ch, dm=dm: dict(case_repr(ch, []), dm=dm), name="valid" + dm)


def replay(ctx, case):
    ch, events = harness.unpack(case["pickle"])
    try:
        if "dm" in case:
            check_valid(ctx, ch, case["dm"])
        else:
            check_damaged(ctx, ch, events, [tuple(x) for x in case.get("ops", [])])
    except Failure as f:
        return [{"kind": f.kind, "detail": f.detail}]
    return []


if __name__ == "__main__":
    if "--shard" in sys.argv:
        harness.shard_entry(sys.modules[__name__])
