"""C03 - the two micro-step engines are interchangeable (differential large vs fast)."""
import sys, os, json
sys.path.insert(0, os.path.join(os.path.dirname(os.path.abspath(__file__)), "..", "pylib"))
sys.path.insert(0, os.path.dirname(os.path.abspath(__file__)))
import harness, gen, model, trace
from harness import Failure
from chartcase import *

PROPERTY = "C03"
LEVEL = "exploration"
RULE = ("cases = (chart, external event history) from the C01 generator (valid charts, all features, plus injected failing "
        "elements); each is run under the 'large' and the 'fast' engine in the same process and the complete observation "
        "(every monitor callback with its element, log lines, dequeued events with name/type/data, step() results, "
        "configuration after every step) must be identical. non-trivial = at least one event-triggered microstep and at "
        "least two transitions enabled for one event at some point (selection/conflict code ran), judged by the reference "
        "model; distinct = hash of (document, history)")
ASSUMPTIONS = ["auto-generated send ids (random UUIDs) are projected away", "fragment as C01 (no invoke / delay)"]


def budget(tier):
    if tier == "thorough":
        return {"examples": 2500, "exh_states": 6, "min_nontrivial": 1000}
    return {"examples": 350, "exh_states": 5, "min_nontrivial": 100}


def proj(t):
    # drop sendid/invokeid/origin of events (auto-generated ids differ by design)
    return [e[:4] if e[0] == 'ev' else e for e in t]


def check_case(ctx, ch, events, dm=None):
    xml = ch.to_xml(dm)
    a = run_engine(ctx, xml, "large", events)
    b = run_engine(ctx, xml, "fast", events)
    m, exp = run_model(ch, events)
    labels = set(m.labels)
    pa, pb = proj(a["trace"]), proj(b["trace"])
    same = (pa == pb and a.get("final") == b.get("final") and a.get("exception") == b.get("exception"))
    if not same:
        na, nb = trace.normalise(a["trace"]), trace.normalise(b["trace"])
        # attribution to recorded known findings: each engine must behave exactly like its recorded deviation model
        quirks = ctx.kf.quirk_ids(PROPERTY)
        if quirks:
            okl = compare_prefix(exp, na) < 0
            if not okl and 'large-select' in quirks:
                okl = compare_prefix(run_model(ch, events, quirks=['large-select'])[1], na) < 0
            okf = compare_prefix(exp, nb) < 0
            if not okf and 'fast-select' in quirks:
                okf = compare_prefix(run_model(ch, events, quirks=['fast-select'])[1], nb) < 0
            if okl and okf and na != nb:
                fid = quirks.get('fast-select') or list(quirks.values())[0]
                ctx.known_finding(fid, {"xml": xml, "events": list(events)})
                ctx.count(case_hash(ch, events), False, ['excluded_by_known_finding'])
                return
        i = next((k for k in range(min(len(pa), len(pb))) if pa[k] != pb[k]), min(len(pa), len(pb)))
        lo = max(0, i - 6)
        raise Failure("engine-mismatch", {"window": {"index": i, "large": pa[lo:i + 6], "fast": pb[lo:i + 6]},
                                          "final": [a.get("final"), b.get("final")],
                                          "signature": [str(pa[i])[:60] if i < len(pa) else None, str(pb[i])[:60] if i < len(pb) else None]})
    nontrivial = m.micro >= 2 and ('multi-enabled' in labels)
    ctx.count(case_hash(ch, events), nontrivial, labels,
              sample=lambda: {"document": xml, "events": list(events), "trace_len": len(pa)})


def shard_main(ctx):
    p = ctx.params
    try:
        for ch in gen.enum_small_charts(p["exh_states"], 2, ctx.shard, ctx.nshards, only_parallel_above=p["exh_states"] - 2):
            check_case(ctx, ch, ['a', 'a'], dm='null')
        ctx.exhaustive = True
    except Failure as f:
        ctx.failures.append({"kind": f.kind, "detail": f.detail, "case": case_repr(ch, ['a', 'a'])})
        ctx.exhaustive = False
        return
    o = gen.GenOpts()
    ctx.run_hypothesis([gen.charts(o, 'lua'), gen.event_histories()],
                       lambda ch, evs: check_case(ctx, ch, evs), p["examples"] // 2, case_repr, name="plain")
    ctx.run_hypothesis([gen.charts(gen.history_profile(), 'null'), gen.event_histories(12, ['a', 'b'])],
                       lambda ch, evs: check_case(ctx, ch, evs, dm='null'), p["examples"], case_repr, name="history")
    ctx.run_hypothesis([gen.parallel_final_charts('lua'), gen.event_histories(8, ['a', 'b', 'c', 'a', 'b', 'c', 'leave', 'back'])],
                       lambda ch, evs: check_case(ctx, ch, evs), p["examples"] // 2, case_repr, name="pardone")
    ctx.run_hypothesis([gen.charts(gen.completion_profile(), 'lua'), gen.event_histories(5, ['a', 'b'])],
                       lambda ch, evs: check_case(ctx, ch, evs), p["examples"], case_repr, name="completion")
    o2 = gen.GenOpts(faults=True)
    ctx.run_hypothesis([gen.charts(o2, 'lua'), gen.event_histories()],
                       lambda ch, evs: check_case(ctx, ch, evs), p["examples"] // 2, case_repr, name="faults")


def replay(ctx, case):
    ch, events = harness.unpack(case["pickle"])
    try:
        check_case(ctx, ch, events)
    except Failure as f:
        return [{"kind": f.kind, "detail": f.detail}]
    return []


if __name__ == "__main__":
    if "--shard" in sys.argv:
        harness.shard_entry(sys.modules[__name__])
