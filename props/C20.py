"""C20 - transformation and interpretation are deterministic functions of their input."""
import re, sys, os, json, tempfile, shutil
sys.path.insert(0, os.path.join(os.path.dirname(os.path.abspath(__file__)), "..", "pylib"))
sys.path.insert(0, os.path.dirname(os.path.abspath(__file__)))
import harness, gen, trace
from harness import Failure, WORK
from chart import *
from chartcase import case_repr, crash_signature
from worker import Worker, WorkerCrash, WorkerHang
from hypothesis import strategies as st

PROPERTY = "C20"
LEVEL = "exploration"
RULE = ("cases = generated documents (with 0-3 nested invoked machines carrying ids, several events and string literals) x "
        "process instances: every document is transpiled with each back-end (C, Promela, VHDL) in three separate processes of "
        "the un-sanitized build - (A) ASLR on, cold cache directory; (A again) warm cache file left by the first run; (B) "
        "setarch -R (ASLR off), MALLOC_PERTURB_, a padded environment - and interpreted under the same event history in A and "
        "B. Oracle (metamorphic): byte-identical transformer output across all instances (an exception must be the same "
        "exception), identical normalised interpreter trace. non-trivial = document has >= 2 machines or >= 5 events / "
        "literals; distinct = distinct document")
ASSUMPTIONS = ["invoke elements carry ids (the statement's precondition)", "session ids / send ids (UUIDs) are not part of the compared trace",
               "a particular address-space layout cannot be forced; ASLR on/off + heap perturbation + environment size vary it"]
BUILDS = (("plain", ["worker"]),)


def budget(tier):
    if tier == "thorough":
        return {"docs": 1600, "min_nontrivial": 500}
    return {"docs": 240, "min_nontrivial": 60}


EXTRA_SNIPPETS = [
    ('any', '<send event="z0"><content>hello world</content></send>'),
    ('any', '<send event="z1"><content><a xmlns="" x="1"><b/>t</a></content></send>'),
    ('any', '<send event="z2" id="fixedid"><content>  spaced   text, "quoted" &amp; more </content></send>'),
    ('any', '<send event="z4" delay="1s" id="sd4"/>'),
    ('data', '<send event="z6"><param name="p" expr="1"/><param name="q" expr="2"/></send>'),
    ('data', '<log label="two  blanks" expr="1"/>'),
    ('any', '<raise event="z3.with.dots"/>'),
]


def enrich(xml, ch):
    """adds an <onentry> with the drawn snippets to the first proper state"""
    picks = [EXTRA_SNIPPETS[i] for i in getattr(ch, 'c20_extras', [])]
    picks = [t for need, t in picks if need == 'any' or ch.datamodel != 'null']
    if not picks:
        return xml
    m = re.search(r'<(state|parallel)\b[^>]*[^/]>', xml)
    if not m:
        return xml
    return xml[:m.end()] + '<onentry>' + ''.join(picks) + '</onentry>' + xml[m.end():]


@st.composite
def documents(draw):
    o = gen.GenOpts(max_states=6, history=True, faults=False, late_binding=False)
    dm = draw(st.sampled_from(['promela', 'promela', 'null']))
    ch = draw(gen.charts(o, dm))
    nchild = draw(st.sampled_from([0, 1, 1, 2, 3]))
    hosts = [s for s in ch.states if s.kind in ('state', 'parallel')]
    oc = gen.GenOpts(max_states=4, history=False, parallel=True, faults=False, late_binding=False)
    # ids as charts really carry them: plain names, dotted / dashed names, UUID-shaped ids (tools generate those), long ids
    id_shapes = ["inv%d", "inv%d", "my.worker-%d", "3f2504e0-4f89-41d3-9a0c-0305e82c330%d", "W%d_" + "x" * 40, "%d0000000-0000-0000-0000-000000000000"]
    for i in range(nchild):
        id_shape = draw(st.sampled_from(id_shapes))
        host = draw(st.sampled_from(hosts))
        child = draw(gen.charts(oc, dm))
        child.name = "child%d" % i
        if draw(st.booleans()) and child.states[1].kind == 'state':
            # a grandchild machine
            gc = draw(gen.charts(gen.GenOpts(max_states=2, history=False, parallel=False, content=False, late_binding=False), dm))
            gc.name = "grand%d" % i
            child.states[1].invokes = getattr(child.states[1], 'invokes', []) + [(draw(st.sampled_from(["g%d", "7c9e6679-7425-40de-944b-e07fc1f9ae7%d"])) % i, gc)]
        host.invokes = getattr(host, 'invokes', []) + [(id_shape % i, child)]
    # literal payloads, written by the back-ends into their output: inline text / XML content, params, delays, odd labels
    ch.c20_extras = draw(st.lists(st.integers(0, len(EXTRA_SNIPPETS) - 1), max_size=3, unique=True))
    return ch


def count_machines(ch):
    n = 1
    for s in ch.states:
        for _, c in getattr(s, 'invokes', []):
            n += count_machines(c)
    return n


def workers(ctx):
    if not hasattr(ctx, '_c20'):
        tmp = tempfile.mkdtemp(prefix="c20_", dir=os.path.join(WORK, "scratch"))
        a = Worker("plain", extra_env={"TMPDIR": tmp}, drop_env=("USCXML_NOCACHE_FILES",))
        b = Worker("plain", prefix=["setarch", "x86_64", "-R"],
                   extra_env={"TMPDIR": tmp, "MALLOC_PERTURB_": "85", "C20_PADDING": "x" * 3000}, drop_env=("USCXML_NOCACHE_FILES",))
        ctx._c20 = (a, b, tmp)
        ctx._workers[("c20", "a")] = a
        ctx._workers[("c20", "b")] = b
    return ctx._c20


def call(w, *args):
    try:
        return w.call(*args)
    except WorkerCrash as e:
        raise Failure("crash", {"stderr": e.stderr[-2500:], "signature": crash_signature(e.stderr)})
    except WorkerHang:
        raise Failure("hang", {"signature": "hang"})


def check_doc(ctx, ch, events):
    a, b, tmp = workers(ctx)
    os.makedirs(tmp, exist_ok=True)
    xml = enrich(ch.to_xml(), ch)
    base = "file:///c20/doc.scxml"
    labels = set()
    for be in ("c", "pml", "vhdl"):
        # cold: remove cache files first
        for f in os.listdir(tmp):
            if f.endswith(".uscxml.cache"):
                os.remove(os.path.join(tmp, f))
        # every transformation runs in a fresh process: the generator deliberately numbers machines per process through
        # the environment variable USCXML_CURRENT_MACHINE_INDEX, which is part of the input, not hidden state
        a.stop()
        r1 = call(a, "transform", xml, be, base)
        a.stop()                      # a fresh process with another layout, warm cache from the first
        r2 = call(a, "transform", xml, be, base)
        b.stop()
        r3 = call(b, "transform", xml, be, base)
        outs = [(r.get("text"), r.get("exception")) for r in (r1, r2, r3)]
        if outs[0][1]:
            labels.add('backend-rejects-' + be)
        for name, o in (("second process (warm cache)", outs[1]), ("ASLR-off process", outs[2])):
            if o != outs[0]:
                ta, tb = outs[0][0] or outs[0][1] or "", o[0] or o[1] or ""
                la, lb = ta.splitlines(), tb.splitlines()
                i = next((k for k in range(min(len(la), len(lb))) if la[k] != lb[k]), min(len(la), len(lb)))
                raise Failure("nondeterministic-output", {"backend": be, "instance": name, "line": i,
                                                          "first": la[i:i + 2], "other": lb[i:i + 2], "signature": ["output", be]})
    # interpreter trace (children are not stepped deterministically w.r.t. the parent: compare only documents without invoke)
    if count_machines(ch) == 1:
        a.stop()
        b.stop()
        ta = call(a, "run", xml, "large", "\n".join(events), "maxsteps=300")
        tb = call(b, "run", xml, "large", "\n".join(events), "maxsteps=300")
        na = [e[:4] if e[0] == 'ev' else e for e in ta["trace"]]
        nb = [e[:4] if e[0] == 'ev' else e for e in tb["trace"]]
        if na != nb:
            i = next((k for k in range(min(len(na), len(nb))) if na[k] != nb[k]), min(len(na), len(nb)))
            raise Failure("nondeterministic-trace", {"index": i, "first": na[max(0, i - 3):i + 3], "other": nb[max(0, i - 3):i + 3],
                                                     "signature": "trace"})
        labels.add('trace-compared')
    nm = count_machines(ch)
    nlit = sum(1 for x in ch.execs.values() if x.kind in ('log', 'raise', 'send'))
    labels.add('machines-%d' % min(nm, 4))
    ctx.count(harness.h64(xml), nm >= 2 or nlit >= 5, labels, sample=lambda: {"document": xml[:3000], "events": list(events)})


def shard_main(ctx):
    p = ctx.params
    if ctx.shard == 0:
        ctx.replay_corpus(sys.modules[__name__])
    try:
        ctx.run_hypothesis([documents(), gen.event_histories(4)], lambda ch, evs: check_doc(ctx, ch, evs), p["docs"] // ctx.nshards + 1,
                           case_repr)
    finally:
        if hasattr(ctx, '_c20'):
            shutil.rmtree(ctx._c20[2], ignore_errors=True)


def replay(ctx, case):
    ch, events = harness.unpack(case["pickle"])
    try:
        check_doc(ctx, ch, events)
    except Failure as f:
        return [{"kind": f.kind, "detail": f.detail}]
    return []


if __name__ == "__main__":
    if "--shard" in sys.argv:
        harness.shard_entry(sys.modules[__name__])
