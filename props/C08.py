"""C08 - external events are processed exactly once, in order, at macrostep boundaries."""
import sys, os, json, re
sys.path.insert(0, os.path.join(os.path.dirname(os.path.abspath(__file__)), "..", "pylib"))
sys.path.insert(0, os.path.dirname(os.path.abspath(__file__)))
import harness, gen, trace, model
from harness import Failure
from chart import *
from chartcase import *
from worker import WorkerCrash, WorkerHang
from hypothesis import strategies as st

PROPERTY = "C08"
LEVEL = "exploration"
RULE = ("cases = (chart, N producer threads, M events each, blocking mode of step(), schedule vector): N in 1..6 threads call "
        "Interpreter::receive concurrently with events named p.<producer>.<seq> (in one stream typed EXTERNAL / INTERNAL / PLATFORM in turn: receive() "
        "must queue whatever Event::Type the embedder passes) while the stepping thread runs step(0) / "
        "step(2 ms) / step(long); the generated chart reacts to 'p' prefixes, raises internal events and has eventless "
        "transitions; the interleaving is perturbed at the USCXML_VERIF schedule points in BasicEventQueue::enqueue/dequeue by "
        "a generated vector of actions (none / yield / 50 us / 400 us sleep). Oracle = invariants over the observed "
        "beforeProcessingEvent sequence: the multiset of processed external events equals what was sent (exactly once), each "
        "producer's events are processed in send order, and - macrostep boundary - the reference model, fed the OBSERVED "
        "external order, must reproduce the whole trace (an external event taken while an internal event is pending or an "
        "eventless transition is enabled shows as a mismatch; so does a mis-ordered internal event). Thorough tier: the same "
        "runs under the ThreadSanitizer build, a data-race report with a BasicEventQueue frame is a violation. non-trivial = "
        ">= 2 producers and >= 20 events and the chart raised internal events while external ones were pending; distinct = "
        "hash(document, N, M, mode, schedule)")
ASSUMPTIONS = ["the harness owns the schedule only at the hook points; interleavings inside the C++ runtime are sampled", "no timing in the "
               "oracle: a 20 s watchdog per run yields 'hang' (reported) - normal runs take milliseconds"]
BUILDS = (("san", ["worker"]),)


def budget(tier):
    if tier == "thorough":
        return {"cases": 6000, "tsan_cases": 300, "min_nontrivial": 700}
    return {"cases": 3200, "tsan_cases": 0, "min_nontrivial": 120}


def c08_opts():
    return gen.GenOpts(max_states=6, send=False, data=False, conds=True, late_binding=False, history_weight=1, done_events=False,
                       descriptors=[['p'], ['p'], ['p.0'], ['p.1'], ['i'], ['j'], ['*'], ['p.0', 'p.1']], faults=False)


def c08_dataflow_opts():
    """targetless transitions whose <assign>s enable guarded eventless transitions: 'no external event is taken while an
    eventless transition is enabled' needs data to be interesting"""
    o = gen.dataflow_profile()
    o.descriptors = [['p'], ['p.0'], ['p.1'], ['p'], ['i']]
    return o


def retarget_raises(ch):
    """raise only the internal names i / j so that internal and external events are distinguishable"""
    if getattr(ch, '_c08', False):
        return ch
    ch._c08 = True
    for x in ch.execs.values():
        if x.kind == 'raise':
            x.event = 'i' if x.event in ('a', 'b', 'r') else 'j'
    return ch


def check_case(ctx, ch, nprod, nper, mode, sched, engine, variant="san", mixed=False):
    ch = retarget_raises(ch)
    xml = ch.to_xml('lua')
    m0, exp0 = run_model(ch, ['p.0.0', 'p.1.0', 'p.0.1'])
    if exp0 and exp0[-1] == ('budget',):
        ctx.notes['skipped_unbounded'] += 1
        ctx.evaluations += 1
        return
    try:
        r = ctx.worker(variant).call("producers", xml, engine, str(nprod), str(nper), str(mode), " ".join(map(str, sched)), "mixed" if mixed else "plain",
                                     timeout=40)
    except WorkerCrash as e:
        raise Failure("crash", {"stderr": crash_excerpt(e.stderr), "signature": crash_signature(e.stderr)})
    except WorkerHang:
        raise Failure("hang", {"signature": "hang"})
    if r.get("exception"):
        raise Failure("exception", {"exception": r["exception"][:300], "signature": "exception"})
    raw = r["trace"]
    # (by name, not by the type field: with mixed=True the producers hand over events of all three public Event::Type values)
    ext = [e[1] for e in raw if e[0] == 'ev' and re.match(r'^p\.\d+\.\d+$', e[1])]
    sent = sorted("p.%d.%d" % (p, s) for p in range(nprod) for s in range(nper))
    finished = any(e[0] == 'bcomp' for e in raw)
    if r.get("timeout") and not finished:
        # the run did not get through within the worker's 20 s budget: either the chart never stabilises for this event order
        # (then this is no statement about the queue) or events are stuck
        # ... judged by the reference model and by the exact models of the recorded selection findings (an engine that selects
        # per F-C01-1 / F-C03-1 may loop where the W3C selection does not)
        # the event that started the endless cascade may not have been recorded as dequeued yet: also try every event that can
        # come next (the next unprocessed one of each producer), and two of them
        nxt = []
        for q in range(nprod):
            done_q = sum(1 for name in ext if name.startswith("p.%d." % q))
            if done_q < nper:
                nxt.append("p.%d.%d" % (q, done_q))
        extras = [[]] + [[n] for n in nxt] + [[a, b] for a in nxt for b in nxt if a != b]
        for quirks in ([], ['large-select'], ['fast-select']):
            for extra in extras:
                ptr = model.Model(ch, max_micro=3000, quirks=quirks).run(list(ext) + extra)
                if ptr and ptr[-1] == ('budget',):
                    ctx.notes['skipped_unbounded_at_runtime'] += 1
                    ctx.evaluations += 1
                    return
        raise Failure("events-not-processed", {"processed": len(ext), "sent": len(sent), "signature": "lost-or-stuck"})
    if not finished:
        if sorted(ext) != sent:
            missing = sorted(set(sent) - set(ext))[:5]
            dup = sorted(set(x for x in ext if ext.count(x) > 1))[:5]
            raise Failure("not-exactly-once", {"missing": missing, "duplicated": dup, "processed": len(ext), "sent": len(sent),
                                               "signature": ["exactly-once", "dup" if dup else "lost"]})
    else:
        if len(set(ext)) != len(ext) or not set(ext) <= set(sent):
            raise Failure("not-exactly-once", {"processed": ext[:10], "signature": ["exactly-once", "dup"]})
    last = {}
    for name in ext:
        _, p, s = name.split('.')
        if int(s) < last.get(p, -1):
            raise Failure("per-sender-order-violated", {"producer": p, "seq": s, "after": last[p], "signature": "fifo"})
        last[p] = int(s)
    # macrostep boundaries / internal order: the model replays the observed external order
    mo = model.Model(ch, max_micro=100000)
    expm = [e for e in trace.model_view(mo.run(list(ext))) if e[0] not in ('cfg', 'finished')]
    obs = [e for e in trace.normalise(raw) if e[0] not in ('cfg', 'finished')]
    # the engine was first run to idle, then events poured in: same thing for the model (events are taken at stable points)
    i = trace.first_diff(expm, obs)
    if i >= 0 and i == len(obs) and len(expm) > len(obs) and (r.get("drain_capped") or r.get("timeout")):
        # the worker stopped stepping (bounded drain after the last event) while the chart still had a long internal cascade
        # to run: everything observed agrees with the model, the rest was never executed
        ctx.notes['observed_prefix_only'] += 1
        i = -1
    if i >= 0:
        for quirk in ('large-select', 'fast-select'):
            mq = model.Model(ch, max_micro=100000, quirks=[quirk])
            if trace.first_diff([e for e in trace.model_view(mq.run(list(ext))) if e[0] not in ('cfg', 'finished')], obs) < 0:
                ctx.notes['selection-known-finding'] += 1
                ctx.count(harness.h64(xml, str(nprod), str(nper), str(mode), str(sched)), False, ['excluded_by_known_finding'])
                return
        raise Failure("macrostep-boundary-violated", {"engine": engine, "window": trace.diff_window(expm, obs, i),
                                                      "signature": [str(expm[i])[:30] if i < len(expm) else None, str(obs[i])[:30] if i < len(obs) else None]})
    internal = sum(1 for e in raw if e[0] == 'ev' and not re.match(r'^p\.\d+\.\d+$', e[1]))
    labels = {'mode-%s' % mode, 'producers-%d' % nprod, 'engine-' + engine}
    if mixed:
        labels.add('mixed-event-types')
    if internal:
        labels.add('internal-events-interleaved')
    nontrivial = nprod >= 2 and len(sent) >= 20 and internal > 0
    ctx.count(harness.h64(xml, str(nprod), str(nper), str(mode), str(sched)), nontrivial, labels,
              sample=lambda: {"document": xml[:1200], "producers": nprod, "per_producer": nper, "block_ms": mode, "schedule": sched,
                              "processed_head": [e[1] for e in raw if e[0] == 'ev'][:16], "hook_hits": r.get("hook_hits")})


case_s = [gen.charts(c08_opts(), 'lua'), st.sampled_from([2, 3, 4, 6, 1, 5]), st.integers(4, 40), st.sampled_from([0, 2, -1]),
          st.lists(st.integers(0, 3), min_size=1, max_size=12), st.sampled_from(['large', 'fast'])]


def shard_main(ctx):
    p = ctx.params
    mod = sys.modules[__name__]
    if ctx.shard == 0:
        ctx.replay_corpus(mod)
    ctx.run_hypothesis(case_s, lambda ch, n, m, mode, sched, eng: check_case(ctx, ch, n, m, mode, sched, eng), p["cases"] // ctx.nshards + 1,
                       lambda ch, n, m, mode, sched, eng: dict(case_repr(ch, []), args=[n, m, mode, sched, eng]))
    ctx.run_hypothesis(case_s, lambda ch, n, m, mode, sched, eng: check_case(ctx, ch, n, m, mode, sched, eng, mixed=True), p["cases"] // (4 * ctx.nshards) + 1,
                       lambda ch, n, m, mode, sched, eng: dict(case_repr(ch, []), args=[n, m, mode, sched, eng], mixed=True), name="mixedtypes")
    ctx.run_hypothesis([gen.dataflow_charts('lua', events=('p', 'p.0', 'p.1'), internal='j')] + case_s[1:], lambda ch, n, m, mode, sched, eng: check_case(ctx, ch, n, m, mode, sched, eng),
                       p["cases"] // (3 * ctx.nshards) + 1,
                       lambda ch, n, m, mode, sched, eng: dict(case_repr(ch, []), args=[n, m, mode, sched, eng]), name="dataflow")
    if p["tsan_cases"] and os.path.exists(os.path.join(harness.WORK, "bin", "worker-tsan")):
        w = ctx.worker("tsan")
        ctx.run_hypothesis(case_s, lambda ch, n, m, mode, sched, eng: check_case(ctx, ch, n, min(m, 15), mode, sched, eng, "tsan"),
                           p["tsan_cases"] // ctx.nshards + 1,
                           lambda ch, n, m, mode, sched, eng: dict(case_repr(ch, []), args=[n, m, mode, sched, eng], variant="tsan"), name="tsan")
        err = w._stderr_tail(200000) if w.errf is not None else ""
        races = [blk for blk in err.split("WARNING: ThreadSanitizer: data race")[1:] if "BasicEventQueue" in blk.split("==================")[0]]
        ctx.notes['tsan_reports_total'] += err.count("WARNING: ThreadSanitizer: data race")
        if races:
            ctx.failures.append({"kind": "data-race-in-event-queue", "detail": {"report": races[0][:3000], "signature": "tsan-eventqueue"},
                                 "case": {"tsan": True}})


def replay(ctx, case):
    if case.get("tsan") is True:
        return []
    ch, _ = harness.unpack(case["pickle"])
    try:
        n, m, mode, sched, eng = case["args"]
        check_case(ctx, ch, n, m, mode, sched, eng, case.get("variant", "san"), mixed=bool(case.get("mixed")))
    except Failure as f:
        return [{"kind": f.kind, "detail": f.detail}]
    return []


def main(tier, seed):
    builds = [("san", ["worker"])]
    if tier == "thorough":
        builds.append(("tsan", ["worker"]))
    return harness.run_check(sys.modules[__name__], tier, seed, builds=builds)


if __name__ == "__main__":
    if "--shard" in sys.argv:
        harness.shard_entry(sys.modules[__name__])
