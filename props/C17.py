"""C17 - the Promela datamodel evaluates expressions with Promela's (C int) semantics."""
import sys, os, json
sys.path.insert(0, os.path.join(os.path.dirname(os.path.abspath(__file__)), "..", "pylib"))
sys.path.insert(0, os.path.dirname(os.path.abspath(__file__)))
import harness
from harness import Failure
from worker import WorkerCrash, WorkerHang
from hypothesis import strategies as st

PROPERTY = "C17"
LEVEL = "exploration"
RULE = ("cases = typed expression ASTs over + - * / % << >> < <= > >= == != && || !, unary minus, parentheses, array element "
        "and struct field access, depth <= 4, constants incl. 0, negatives and boundary values, over declared int variables "
        "a b c, an int array arr[4] and a compound value cv.f/cv.g; each AST is printed with minimal parentheses (from the "
        "Promela/C precedence table) and fully parenthesised; plus assignment sequences (scalar, array element) with "
        "read-back; plus an ill-formed class (garbled text, undeclared names, out-of-range and negative indices, / 0, % 0). "
        "Oracle = 60-line reference evaluator with C int semantics that tracks undefined behaviour (those cases only need "
        "'no crash'); metamorphic: both printings of one AST must evaluate equal; errors must surface as error.execution, "
        "never as a value or a crash. Run on the sanitizer build and on a plain g++ build (operand order was compiler "
        "dependent). non-trivial = >= 2 operators of different precedence, or an index / field access, or an error case "
        "whose faulting sub-expression is reached; distinct = distinct expression text")
ASSUMPTIONS = ["values are compared as integers: 'true'/'false' results of comparisons count as 1/0 (C semantics)",
               "++/-- statements are not reachable through the DataModel API and are not covered"]
BUILDS = (("san", ["worker"]), ("plain", ["worker"]))

PREC = {'||': 1, '&&': 2, '==': 5, '!=': 5, '<': 6, '<=': 6, '>': 6, '>=': 6, '<<': 7, '>>': 7, '+': 8, '-': 8, '*': 9, '/': 9, '%': 9}
# (Promela shares C's table; bitwise | ^ & would sit at 3, 3.5, 4 -- not in the evaluated operator set)
UNARY = 10
INT_MIN, INT_MAX = -2 ** 31, 2 ** 31 - 1

DOC = ('<scxml xmlns="http://www.w3.org/2005/07/scxml" version="1.0" datamodel="promela"><datamodel>'
       '<data id="a" type="int" expr="3"/><data id="b" type="int" expr="5"/><data id="c" type="int" expr="0"/>'
       '<data id="arr" type="int[4]"/><data id="cv">{"f": 7, "g": 2}</data>'
       '</datamodel><state id="s"/></scxml>')
ENV0 = {'a': 3, 'b': 5, 'c': 0, 'arr': [0, 0, 0, 0], 'cv': {'f': 7, 'g': 2}}


def budget(tier):
    if tier == "thorough":
        return {"exprs": 60000, "seqs": 8000, "bad": 8000, "min_nontrivial": 20000}
    return {"exprs": 5000, "seqs": 800, "bad": 800, "min_nontrivial": 2000}


class UB(Exception):
    pass


class Err(Exception):
    pass


def ceval(e, env):
    """reference: C int semantics. raises UB (undefined in C: no value demanded) or Err (must be reported as error)"""
    k = e[0]
    if k == 'c':
        return e[1]
    if k == 'v':
        return env[e[1]]
    if k == 'idx':
        i = ceval(e[2], env)
        if i < 0 or i >= len(env[e[1]]):
            raise Err("index")
        return env[e[1]][i]
    if k == 'fld':
        return env[e[1]][e[2]]
    if k == 'neg':
        v = ceval(e[1], env)
        if v == INT_MIN:
            raise UB()
        return -v
    if k == 'not':
        return 0 if ceval(e[1], env) != 0 else 1
    a = ceval(e[1], env)
    if k == '&&':
        # no side effects: both operands are evaluated by the datamodel; errors in the right operand may or may not surface
        if a == 0:
            try:
                ceval(e[2], env)
            except Err:
                raise UB()
            return 0
        return 1 if ceval(e[2], env) != 0 else 0
    if k == '||':
        if a != 0:
            try:
                ceval(e[2], env)
            except Err:
                raise UB()
            return 1
        return 1 if ceval(e[2], env) != 0 else 0
    b = ceval(e[2], env)
    if k == '+':
        r = a + b
    elif k == '-':
        r = a - b
    elif k == '*':
        r = a * b
    elif k in ('/', '%'):
        if b == 0:
            raise Err("div0")
        if a == INT_MIN and b == -1:
            raise UB()
        q = abs(a) // abs(b)
        if (a < 0) != (b < 0):
            q = -q
        r = q if k == '/' else a - q * b
    elif k == '<<':
        if b < 0 or b >= 32 or a < 0:
            raise UB()
        r = a << b
    elif k == '>>':
        if b < 0 or b >= 32 or a < 0:
            raise UB()
        r = a >> b
    elif k == '<':
        return int(a < b)
    elif k == '<=':
        return int(a <= b)
    elif k == '>':
        return int(a > b)
    elif k == '>=':
        return int(a >= b)
    elif k == '==':
        return int(a == b)
    elif k == '!=':
        return int(a != b)
    else:
        raise ValueError(k)
    if r < INT_MIN or r > INT_MAX:
        raise UB()
    return r


def pr_min(e, parent=0, right=False):
    k = e[0]
    if k == 'c':
        return str(e[1]) if e[1] >= 0 else "(%d)" % e[1] if parent else str(e[1])
    if k == 'v':
        return e[1]
    if k == 'idx':
        return "%s[%s]" % (e[1], pr_min(e[2]))
    if k == 'fld':
        return "%s.%s" % (e[1], e[2])
    if k == 'neg':
        s = "-" + pr_min(e[1], UNARY)
        return "(%s)" % s if parent >= UNARY else s
    if k == 'not':
        s = "!" + pr_min(e[1], UNARY)
        return "(%s)" % s if parent >= UNARY else s
    p = PREC[k]
    s = "%s %s %s" % (pr_min(e[1], p, False), k, pr_min(e[2], p, True))
    # left associative: a right operand of the same precedence needs parentheses
    if p < parent or (p == parent and right):
        return "(%s)" % s
    return s


def pr_full(e):
    k = e[0]
    if k == 'c':
        return str(e[1]) if e[1] >= 0 else "(%d)" % e[1]
    if k == 'v':
        return e[1]
    if k == 'idx':
        return "%s[%s]" % (e[1], pr_full(e[2]))
    if k == 'fld':
        return "%s.%s" % (e[1], e[2])
    if k == 'neg':
        return "(-%s)" % pr_full(e[1])
    if k == 'not':
        return "(!%s)" % pr_full(e[1])
    return "(%s %s %s)" % (pr_full(e[1]), k, pr_full(e[2]))


def ops_of(e, out=None):
    out = [] if out is None else out
    if e[0] in ('c', 'v', 'fld'):
        if e[0] == 'fld':
            out.append('fld')
        return out
    out.append(e[0])
    for s in e[1:]:
        if isinstance(s, tuple):
            ops_of(s, out)
    return out


consts = st.one_of(st.integers(0, 9), st.sampled_from([0, 1, 1, 2, 3, 7, 31, 32, 33, 255, 65535, 2 ** 31 - 1, 2 ** 31 - 2, 1000000]))
leaves = st.one_of(consts.map(lambda n: ('c', n)), st.sampled_from(['a', 'b', 'c']).map(lambda v: ('v', v)),
                   st.sampled_from(['f', 'g']).map(lambda f: ('fld', 'cv', f)))


def exprs(depth=3):
    if depth == 0:
        return leaves
    sub = st.deferred(lambda: exprs(depth - 1))
    binop = st.sampled_from(list(PREC.keys()))
    return st.one_of(
        leaves,
        st.tuples(binop, sub, sub),
        st.tuples(binop, sub, sub),
        st.tuples(st.just('neg'), sub),
        st.tuples(st.just('not'), sub),
        st.tuples(st.just('idx'), st.just('arr'), st.one_of(st.integers(0, 3).map(lambda n: ('c', n)), sub)),
    )


def val_of(r):
    """worker result -> int or ('err', name)"""
    if 'err' in r:
        return ('err', r['err'])
    v = r.get('v')
    if isinstance(v, list) and len(v) == 2 and isinstance(v[1], str):
        t = v[1]
        if t == 'true':
            return 1
        if t == 'false':
            return 0
        try:
            return int(t)
        except ValueError:
            return ('val', t)
    return ('val', json.dumps(v)[:80])


def call(ctx, variant, *args):
    try:
        return ctx.worker(variant).call(*args)
    except WorkerCrash as e:
        from chartcase import crash_signature
        raise Failure("crash", {"build": variant, "ops": [str(a)[:200] for a in args[2:]], "stderr": e.stderr[-2500:],
                                "signature": crash_signature(e.stderr)})
    except WorkerHang:
        raise Failure("hang", {"build": variant, "signature": "hang"})


def known(ctx, cls, example):
    for f in ctx.kf.known(PROPERTY):
        sig = f.get("signature", {})
        if sig.get("kind") == "class" and sig.get("class") in cls:
            ctx.known_finding(f["id"], example)
            return True
    return False


def check_expr(ctx, e, env=None, doc=DOC, pre_ops=()):
    env = env or ENV0
    tmin, tfull = pr_min(e), pr_full(e)
    ops = ops_of(e)
    cls = set(ops)
    try:
        exp = ceval(e, env)
    except UB:
        exp = 'UB'
    except Err as x:
        exp = ('err', 'error.execution')
        cls.add('error-' + x.args[0])
    for variant in ("san", "plain"):
        r = call(ctx, variant, "dm", doc, *(list(pre_ops) + ["e" + tmin, "e" + tfull]))
        if "exception" in r:
            raise Failure("setup-exception", {"exception": r["exception"], "signature": "setup"})
        got = [val_of(x) for x in r["r"][len(pre_ops):]]
        if exp == 'UB':
            continue  # undefined in C: any value or an error is acceptable, only 'no crash'
        bad = None
        if isinstance(exp, tuple):
            for g, text in zip(got, (tmin, tfull)):
                if not (isinstance(g, tuple) and g[0] == 'err'):
                    bad = ("error-not-reported", text, g)
        else:
            for g, text in zip(got, (tmin, tfull)):
                if g != exp:
                    bad = ("wrong-value", text, g)
        if bad:
            if known(ctx, cls, {"expr": tmin}):
                ctx.count(harness.h64(tmin), False, ['excluded_by_known_finding'])
                return
            raise Failure(bad[0], {"build": variant, "expression": bad[1], "minimal": tmin, "full": tfull, "expected": exp,
                                   "observed": bad[2], "signature": [bad[0]] + sorted(set(ops))[:3]})
    precs = set(PREC.get(o, UNARY) for o in ops if o not in ('idx', 'fld'))
    nontrivial = len(precs) >= 2 or 'idx' in ops or 'fld' in ops or isinstance(exp, tuple)
    cls.add('value' if isinstance(exp, int) else ('undefined-in-C' if exp == 'UB' else 'error-expected'))
    ctx.count(harness.h64(tmin), nontrivial, cls, sample={"minimal": tmin, "full": tfull, "expected": exp if not isinstance(exp, tuple) else "error.execution"})


# ---- assignment sequences ------------------------------------------------------------------------------
assign_s = st.lists(st.one_of(
    st.tuples(st.just('set'), st.sampled_from(['a', 'b', 'c']), exprs(2)),
    st.tuples(st.just('seta'), st.integers(0, 3), exprs(2)),
    st.tuples(st.just('seta'), st.sampled_from([4, 5, -1, 3, 0, 4]), exprs(1)),
    st.tuples(st.just('get'), exprs(2)),
), min_size=1, max_size=6)


def check_seq(ctx, seq):
    env = {'a': 3, 'b': 5, 'c': 0, 'arr': [0, 0, 0, 0], 'cv': {'f': 7, 'g': 2}}
    ops, expect = [], []
    for s in seq:
        if s[0] == 'get':
            ops.append("e" + pr_min(s[1]))
            try:
                expect.append(ceval(s[1], env))
            except UB:
                return  # sequence leaves defined behaviour: not asserted
            except Err:
                expect.append(('err',))
        else:
            e = s[2]
            try:
                v = ceval(e, env)
            except UB:
                return
            except Err:
                v = None
            loc = s[1] if s[0] == 'set' else ("arr[%d]" % s[1] if s[1] >= 0 else "arr[0 - %d]" % -s[1])
            ops.append("a" + loc + "\x1f" + pr_min(e))
            if s[0] == 'seta' and not (0 <= s[1] < len(env['arr'])):
                expect.append(('err',))      # a write outside the declared bounds is an error and changes nothing
            elif v is None:
                expect.append(('err',))
            else:
                expect.append('ok')
                if s[0] == 'set':
                    env[s[1]] = v
                else:
                    env['arr'][s[1]] = v
    # final read back of everything
    for loc in ('a', 'b', 'c', 'arr[0]', 'arr[1]', 'arr[2]', 'arr[3]'):
        ops.append("e" + loc)
    expect += [env['a'], env['b'], env['c']] + env['arr']
    for variant in ("san", "plain"):
        r = call(ctx, variant, "dm", DOC, *ops)
        for i, (x, exp) in enumerate(zip(r["r"], expect)):
            if exp == 'ok':
                ok = x.get("ok") is True
            elif exp == ('err',):
                ok = 'err' in x
            else:
                ok = val_of(x) == exp
            if not ok:
                raise Failure("sequence-mismatch", {"build": variant, "ops": [o.replace("\x1f", " = ") for o in ops], "step": i,
                                                    "expected": exp, "observed": x, "signature": ["seq", ops[i][:1]]})
    ctx.count(harness.h64("|".join(ops)), True, ['sequence'], sample={"ops": [o.replace("\x1f", " = ") for o in ops][:8]})


# ---- ill-formed ------------------------------------------------------------------------------------------
bad_s = st.one_of(
    st.tuples(exprs(2), st.integers(0, 200), st.sampled_from(['drop', 'dup', 'junk'])).map(lambda t: ('garble',) + t),
    st.sampled_from(['nosuch + 1', 'arr[4]', 'arr[0 - 1]', 'arr[-1]', 'a / 0', 'a % 0', '1 +', '* 2', '((1)', 'a b', 'cv.nosuch', 'nosuch[0]',
                     'a[0]', '1 / (a - 3)', '7 % c', 'arr[b]', '', ')', 'a ? b', '"str" + 1']).map(lambda s: ('text', s)),
)


def check_bad(ctx, b):
    if b[0] == 'garble':
        text = pr_min(b[1])
        if not text:
            return
        p = b[2] % len(text)
        if b[3] == 'drop':
            text = text[:p] + text[p + 1:]
        elif b[3] == 'dup':
            text = text[:p] + text[p] + text[p:]
        else:
            text = text[:p] + "@#" + text[p:]
        must_err = False   # the garbled text may still be a legal expression: only 'no crash' is demanded
    else:
        text = b[1]
        must_err = True
    for variant in ("san", "plain"):
        r = call(ctx, variant, "dm", DOC, "e" + text)
        x = r["r"][0]
        if must_err and 'err' not in x:
            if known(ctx, {'bad:' + text}, {"expr": text}):
                ctx.count(harness.h64("bad", text), False, ['excluded_by_known_finding'])
                return
            raise Failure("error-not-reported", {"build": variant, "expression": text, "observed": x, "signature": ["bad", text[:12]]})
    ctx.count(harness.h64("bad", text), must_err, ['ill-formed-fixed' if must_err else 'garbled'], sample={"text": text})


def shard_main(ctx):
    p = ctx.params
    n = ctx.nshards
    if ctx.shard == 0:
        ctx.replay_corpus(sys.modules[__name__])
    # bounded exhaustive core: every binary operator on every pair of boundary operands (negative values written as -n, the
    # smallest int as -2147483647 - 1), and both unary operators on every boundary operand
    def lit(v):
        if v >= 0:
            return ('c', v)
        if v == INT_MIN:
            return ('-', ('neg', ('c', INT_MAX)), ('c', 1))
        return ('neg', ('c', -v))
    bnd = [INT_MIN, INT_MIN + 1, -65536, -256, -33, -32, -31, -3, -2, -1, 0, 1, 2, 3, 31, 32, 33, 255, 65535, INT_MAX - 1, INT_MAX]
    k = 0
    try:
        for op in sorted(PREC):
            for l in bnd:
                for r in bnd:
                    k += 1
                    if k % n == ctx.shard:
                        check_expr(ctx, (op, lit(l), lit(r)))
        for op in ('neg', 'not'):
            for v in bnd:
                k += 1
                if k % n == ctx.shard:
                    check_expr(ctx, (op, lit(v)))
    except Failure as f:
        ctx.failures.append({"kind": f.kind, "detail": f.detail, "case": {"expr": repr((op, l, r)) if op in PREC else repr((op, v)), "boundary": True}})
        return
    ctx.run_hypothesis([exprs(3)], lambda e: check_expr(ctx, e), p["exprs"] // n + 1,
                       lambda e: {"expr": repr(e), "minimal": pr_min(e), "full": pr_full(e)}, name="expr")
    ctx.run_hypothesis([assign_s], lambda s: check_seq(ctx, s), p["seqs"] // n + 1, lambda s: {"seq": repr(s)}, name="seq")
    ctx.run_hypothesis([bad_s], lambda b: check_bad(ctx, b), p["bad"] // n + 1, lambda b: {"bad": repr(b)}, name="bad")


def replay(ctx, case):
    import ast
    try:
        if "expr" in case:
            check_expr(ctx, ast.literal_eval(case["expr"]))
        elif "seq" in case:
            check_seq(ctx, ast.literal_eval(case["seq"]))
        elif "bad" in case:
            check_bad(ctx, ast.literal_eval(case["bad"]))
    except Failure as f:
        return [{"kind": f.kind, "detail": f.detail}]
    return []


if __name__ == "__main__":
    if "--shard" in sys.argv:
        harness.shard_entry(sys.modules[__name__])
