#!/usr/bin/env python3
import json,sys,re
for f in sys.argv[1:]:
    d=json.load(open(f))
    print("=====", f, d['kind'])
    c=d['case']
    if isinstance(c, dict) and 'xml' in c:
        xml=re.sub(r'\s*<on(entry|exit) vid="[^"]*">\s*</on(entry|exit)>','',c['xml'])
        xml=xml.replace(' xmlns="http://www.w3.org/2005/07/scxml" version="1.0" vid="#root" name="m"','')
        xml=re.sub(r' vid="[^"]*"','',xml)
        print(xml.rstrip()); print("events:", c.get('events'))
    else:
        print(json.dumps({k:v for k,v in c.items() if k!='pickle'}, indent=1)[:3000] if isinstance(c, dict) else c)
    w=d['detail'].get('window') if isinstance(d['detail'], dict) else None
    if w:
        [print(k, w[k]) for k in w]
    else: print(json.dumps({k:v for k,v in d['detail'].items() if k!='window'}, default=str)[:3000])
