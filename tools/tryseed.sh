#!/bin/bash
# usage: tools/tryseed.sh <patch.diff> <check ids...>   - applies a seeded change to /repo, runs the checks, always undoes it
patch=$1; shift
cd /repo && git apply "$patch" || { echo "patch does not apply"; exit 2; }
cd /verif
for p in "$@"; do
  out=$(VERIF_SEED=${VERIF_SEED:-1} ./check $p 2>&1 | grep -E "tier=|VIOLATION|BROKEN" | cut -c1-220)
  echo "[$p] $out"
done
cd /repo && git checkout -- . && git status --short | grep -v _build | head -3
