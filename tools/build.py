#!/usr/bin/env python3
"""Mirror /repo's working tree and build it incrementally in a named variant.

usage: build.py <variant> [--harness name ...]

Variants: san (g++ ASan+UBSan), tsan (g++ TSan), fuzz (clang fuzzer-no-link+ASan+UBSan),
plain (g++ -O2, repo flags).  All with -DUSCXML_VERIF.
The mirror is content-synchronised (rsync -c) so ninja only rebuilds files whose
content changed, regardless of mtimes in /repo.
"""
import os, sys, subprocess, fcntl, time, shutil

VERIF = os.path.dirname(os.path.dirname(os.path.abspath(__file__)))
WORK = os.path.join(VERIF, ".work")
REPO = os.environ.get("VERIF_REPO", "/repo")
MIRROR = os.path.join(WORK, "mirror")

VARIANTS = {
    "san": dict(cc="gcc", cxx="g++",
                flags="-O1 -g1 -fsanitize=address,undefined -fno-sanitize=null,alignment,vptr,signed-integer-overflow,shift-base -fno-omit-frame-pointer -DUSCXML_VERIF",
                ld="-fsanitize=address,undefined"),
    "tsan": dict(cc="gcc", cxx="g++",
                 flags="-O1 -g1 -fsanitize=thread -DUSCXML_VERIF",
                 ld="-fsanitize=thread"),
    "fuzz": dict(cc="clang", cxx="clang++",
                 flags="-O1 -g1 -fsanitize=fuzzer-no-link,address,undefined -fno-sanitize=null,alignment,vptr,function,signed-integer-overflow,shift-base -fno-sanitize-recover=undefined -DUSCXML_VERIF",
                 ld="-fsanitize=address,undefined"),
    "plain": dict(cc="gcc", cxx="g++", flags="-O1 -g1 -DUSCXML_VERIF", ld=""),
}

INC = ["-I{m}/src", "-I{m}/contrib/src", "-I{b}", "-I{m}/contrib/src/jsmn", "-I{m}/contrib/src/evws",
       "-I{m}/contrib/src/uriparser/include", "-I/usr/include/lua5.3", "-I{m}/contrib/src/LuaBridge",
       "-DXERCESC_NS=xercesc_3_2", "-DUSCXML_VERIF"]


def log(*a):
    print("[build]", *a, file=sys.stderr, flush=True)


def run(cmd, **kw):
    r = subprocess.run(cmd, stdout=subprocess.PIPE, stderr=subprocess.STDOUT, text=True, **kw)
    if r.returncode != 0:
        sys.stderr.write(r.stdout[-6000:])
        raise SystemExit("build step failed: %s" % (cmd if isinstance(cmd, str) else " ".join(cmd)))
    return r.stdout


def sync_mirror():
    os.makedirs(MIRROR, exist_ok=True)
    # -c: compare by checksum, so only changed content gets a new mtime
    run(["rsync", "-rlc", "--delete", "--exclude", "/_build", "--exclude", "/.git", "--exclude", "/docs",
         "--exclude", "/installer", "--exclude", "/examples",
         REPO.rstrip("/") + "/", MIRROR + "/"])
    for d in ("docs", "installer", "examples"):
        # CMake may reference these; keep a light copy only if needed
        src = os.path.join(REPO, d)
        dst = os.path.join(MIRROR, d)
        if os.path.isdir(src) and not os.path.exists(dst):
            run(["rsync", "-rl", src + "/", dst + "/"])


def build_dir(variant):
    return os.path.join(WORK, "build-" + variant)


def build_lib(variant):
    v = VARIANTS[variant]
    b = build_dir(variant)
    stamp = os.path.join(b, ".verif_flags")
    flagsig = v["cc"] + "|" + v["flags"] + "|" + v["ld"]
    if os.path.exists(stamp) and open(stamp).read() != flagsig:
        shutil.rmtree(b, ignore_errors=True)
    if not os.path.exists(os.path.join(b, "build.ninja")):
        os.makedirs(b, exist_ok=True)
        env = dict(os.environ, CC=v["cc"], CXX=v["cxx"])
        run(["cmake", "-G", "Ninja", "-S", MIRROR, "-B", b, "-DBUILD_TESTS=OFF", "-DBUILD_DOCS=OFF",
             "-DBUILD_BINDING_JAVA=OFF", "-DBUILD_BINDING_CSHARP=OFF", "-DBUILD_BINDING_PYTHON=OFF",
             "-DBUILD_BINDING_LUA=OFF", "-DBUILD_BINDING_PHP=OFF",
             "-DCMAKE_BUILD_TYPE=RelWithDebInfo",
             "-DCMAKE_C_FLAGS=" + v["flags"].replace("-fsanitize=fuzzer-no-link,", "-fsanitize="),
             "-DCMAKE_CXX_FLAGS=-Wno-error -w " + v["flags"],
             "-DCMAKE_CXX_FLAGS_RELWITHDEBINFO=-DNDEBUG", "-DCMAKE_C_FLAGS_RELWITHDEBINFO=-DNDEBUG",
             "-DCMAKE_SHARED_LINKER_FLAGS=" + v["ld"], "-DCMAKE_EXE_LINKER_FLAGS=" + v["ld"]], env=env)
    if not os.path.exists(stamp):
        open(stamp, "w").write(flagsig)
    t = time.time()
    run(["ninja", "-C", b, "-j", os.environ.get("VERIF_JOBS", "16"), "uscxml", "uscxml_transform"])
    log("lib %s up to date (%.1fs)" % (variant, time.time() - t))


def harness_flags(variant):
    b = build_dir(variant)
    inc = [x.format(m=MIRROR, b=b) for x in INC]
    libs = ["-L" + os.path.join(b, "lib"), "-Wl,-rpath," + os.path.join(b, "lib"),
            "-luscxml_transform", "-luscxml", "-lxerces-c", "-llua5.3", "-levent", "-levent_pthreads", "-lpthread"]
    return inc, libs


def newer(target, deps):
    if not os.path.exists(target):
        return True
    mt = os.path.getmtime(target)
    return any(os.path.getmtime(d) > mt for d in deps if os.path.exists(d))


def build_harness(variant, name, sources, extra=None, cxx=None, link_fuzzer=False, uses_lib=True):
    """Compile /verif/src/<sources> into .work/bin/<name>-<variant>."""
    v = VARIANTS[variant]
    out = os.path.join(WORK, "bin", "%s-%s" % (name, variant))
    os.makedirs(os.path.dirname(out), exist_ok=True)
    srcs = [os.path.join(VERIF, "src", s) for s in sources]
    b = build_dir(variant)
    deps = list(srcs)
    hdr_dir = os.path.join(VERIF, "src")
    for root, _, files in os.walk(hdr_dir):
        for f in files:
            if f.endswith((".h", ".hpp", ".inc")):
                deps.append(os.path.join(root, f))
    if uses_lib:
        deps += [os.path.join(b, "lib", "libuscxml.so"), os.path.join(b, "lib", "libuscxml_transform.so")]
    if not newer(out, deps):
        return out
    inc, libs = harness_flags(variant)
    flags = v["flags"].split()
    if link_fuzzer:
        flags = [f.replace("fuzzer-no-link", "fuzzer") for f in flags]
    else:
        flags = [f.replace("fuzzer-no-link,", "") for f in flags]
    cmd = [cxx or v["cxx"], "-std=gnu++17", "-w"] + flags + inc + ["-I" + hdr_dir] + srcs + ["-o", out + ".tmp"] \
        + (libs if uses_lib else []) + (extra or [])
    t = time.time()
    run(cmd)
    os.replace(out + ".tmp", out)
    log("harness %s-%s built (%.1fs)" % (name, variant, time.time() - t))
    return out


HARNESSES = {
    # name: (sources, extra link flags, kwargs)
    "worker": (["worker/worker.cpp"], [], {}),
}


def main():
    args = sys.argv[1:]
    if not args:
        raise SystemExit(__doc__)
    variant = args[0]
    names = []
    if "--harness" in args:
        names = args[args.index("--harness") + 1:]
    os.makedirs(WORK, exist_ok=True)
    lock = open(os.path.join(WORK, "build.lock"), "w")
    fcntl.flock(lock, fcntl.LOCK_EX)
    try:
        sync_mirror()
        build_lib(variant)
        sys.path.insert(0, os.path.join(VERIF, "tools"))
        try:
            import harnesses
            table = harnesses.HARNESSES
        except ImportError:
            table = HARNESSES
        for n in names:
            srcs, extra, kw = table[n]
            print(build_harness(variant, n, srcs, extra, **kw))
    finally:
        fcntl.flock(lock, fcntl.LOCK_UN)


if __name__ == "__main__":
    main()
