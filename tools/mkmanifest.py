#!/usr/bin/env python3
"""Writes /verif/MANIFEST.json from the table below (kept here so it is easy to keep current)."""
import json, os, subprocess
VERIF = os.path.dirname(os.path.dirname(os.path.abspath(__file__)))
props = [json.loads(l) for l in open(os.path.join(VERIF, 'properties.jsonl'))]
ids = [p['id'] for p in props]

CHECKS = {
 'C01': dict(category='exploration', design_ref='DESIGN.md §4 C01, §12',
   text="Differential exploration against an independent reference transcription of W3C Appendix D: every generated (chart, event history) is run on the default engine and compared entry by entry (exits, transitions, entries, executed elements, log values, dequeued events, configuration after each microstep, final data). Exploration, not proof: it samples the space densely (thousands of distinct non-trivial cases per quick run, exhaustive over a small-chart bound), shrinks failures, and attributes deviations of the one recorded known finding via an exact quirk model.",
   note="Trusted: the Python reference model (pylib/model.py), the worker's monitor/logger observation, Hypothesis. Fragment: no invoke/delay; integer data below 1e9.",
   technique="property-based differential testing against a reference model (Hypothesis), sharded x16"),
 'C02': dict(category='exploration', design_ref='DESIGN.md §4 C02',
   text="Invariant checking over generated runs: charts are generated freely (target lists not forced to be legal) and kept iff validate() reports no FATAL; after every step of both engines the Rec. 3.11 legality predicate, 'root entered once / never exited', and history soundness (from serialize() at every stable point) are evaluated. Exploration level: dense sampling with shrinking, no exhaustiveness claim.",
   note="Trusted: legality predicate over the generator's AST, worker observation. Nested-history class excluded by construction (F-C02-1, witness replayed). Generated C machine: see C04.",
   technique="property-based invariant testing (Hypothesis), validator-filtered generation, both engines"),
 'C03': dict(category='exploration', design_ref='DESIGN.md §4 C03',
   text="Pure differential: the same generated chart and history (including injected failing elements) under the 'large' and 'fast' engines must produce identical monitor callbacks, log lines, events, step() results and configurations. Differences are attributed to the recorded selection findings only when each engine matches its exact deviation model.",
   note="Trusted: worker observation; reference model only for known-finding attribution. Auto-generated send ids projected away.",
   technique="differential property-based testing (Hypothesis) large vs fast"),
 'C13': dict(category='exploration', design_ref='DESIGN.md §4 C13',
   text="Pushdown recogniser over the raw monitor callback stream (balanced, well nested, exit/transition/entry phase order, content only inside brackets, nothing but event/stable/completion notices outside microsteps) plus completeness and order against the reference model, on generated charts incl. injected errors, both engines.",
   note="Trusted: the grammar (derived from test-lifecycle.cpp and the property text), reference model for completeness. Invocation callbacks only covered by C11.",
   technique="property-based testing with a grammar oracle + reference model (Hypothesis)"),
 'C12': dict(category='exploration', design_ref='DESIGN.md §4 C12',
   text="Exhaustive enumeration of the descriptor-list x event-name space over a small alphabet (all lists of <=2 descriptors, each with '', '.*', '.' suffix or '*', all blank variants; >2M pairs per quick run) plus random longer ones, against a reference matcher written from Rec. 3.12.1; for uscxml::nameMatch, the matcher copy shipped in the generated-C scaffolding (extracted and compiled at check time) and end-to-end through both engines.",
   note="Trusted: the 12-line reference matcher; brace-matching extraction of the scaffolding function (check exits 2 if extraction fails). Promela/VHDL static descriptor resolution is exercised by C06/C18, not here.",
   technique="bounded exhaustive enumeration + property-based testing against a reference matcher"),
 'C15': dict(category='exploration', design_ref='DESIGN.md §4 C15',
   text="Round-trip properties over generated Data trees (all byte values) and Events, parser robustness over damaged JSON text and raw bytes under ASan/UBSan, and a coverage-guided libFuzzer campaign on Data::fromJSON (about 2M executions per quick run); failures shrink to minimal trees / inputs and are replayed from committed corpus files.",
   note="Trusted: independent JSON printer and dumper in the harness; sanitizers. Top-level atoms and empty containers are outside the asserted domain (by the code's own contract).",
   technique="round-trip property-based testing (Hypothesis) + libFuzzer with sanitizers"),
 'C17': dict(category='exploration', design_ref='DESIGN.md §4 C17',
   text="Generated typed expression ASTs (all operators the datamodel evaluates, unary minus, array/field access) printed with minimal and with full parentheses, evaluated by the Promela datamodel in a sanitizer build and in a plain g++ build, compared with a reference evaluator with C int semantics that tracks undefined behaviour; assignment sequences with read-back; an ill-formed class that must yield error.execution and never a crash or hang.",
   note="Trusted: the reference evaluator and the two printers (cross-checked against each other by the metamorphic relation). C-undefined cases (overflow) only demand 'no crash'. ++/-- not reachable through the API.",
   technique="property-based testing against a reference evaluator + metamorphic parenthesisation (Hypothesis), two builds"),
 'C16': dict(category='exploration', design_ref='DESIGN.md §4 C16',
   text="Round trip of generated values (strings incl. empty/number-like/code-like, integers and reals with many digits, booleans, arrays, maps, nested) through five entry paths (API assign, event payload, <param>, namelist, <donedata>) of a real Lua-datamodel session and back via evalAsData, compared modulo Lua value semantics; plus the protected system variables (assignment must raise error.execution and leave the value unchanged) via API and via <assign>.",
   note="Trusted: the equivalence predicate (numbers numerically, strings bytewise). Shapes the statement excludes (numeric keys, nil holes, empty containers) are not generated. Inline <data> content and <log> as exit path are not covered.",
   technique="round-trip property-based testing (Hypothesis) through a live interpreter session"),
 'C04': dict(category='translation_validation', design_ref='DESIGN.md §4 C04',
   text="Translation validation per generated program: each generated chart is emitted by ChartToC, compiled with a scaffold under clang ASan+UBSan using exactly the emitted sizing macros, run on a generated event history, and its trace (events dequeued, log values, raise/send/assign calls, configuration after every uscxml_step, final data) compared with the interpreter's for the same document; plus an arithmetic check of the emitted sizing macros against the emitted table sizes.",
   note="Trusted: the scaffold callbacks (written from the emitted header's contract) and the expression table compiled from the same abstract chart. Differences explained exactly by the transpilers' conflict relation are attributed to known finding F-C04-1. No invoke / nested machines.",
   technique="differential property-based testing of compiled transpiler output vs interpreter (Hypothesis), sanitizers"),
 'C05': dict(category='translation_validation', design_ref='DESIGN.md §4 C05',
   text="For every enumerated small state tree (all shapes and kind assignments up to the bound, sampled decorations) and Hypothesis-generated larger trees, every structural table the transpiler annotates (document/post-fix order, parent, children, ancestors, completion incl. history completion, targets, exit sets, conflicts) is recomputed from the generator's AST by the Recommendation's definitions and compared bit by bit; the tables embedded in the emitted C text (hex initialisers and bit-string comments) must equal the annotations.",
   note="Trusted: the AST-side definitions (40 lines). Pseudo-state bits inside history completions and rows of initial/history transitions are masked (no behavioural meaning). Promela/VHDL embeddings are exercised behaviourally by C06/C18. Nested-history class excluded (F-C05-1).",
   technique="bounded exhaustive enumeration + property-based testing against recomputed reference tables"),
 'C18': dict(category='translation_validation', design_ref='DESIGN.md §4 C18',
   text="The emitted VHDL's concurrent signal assignments are parsed into expression DAGs and evaluated (three-valued fixpoint where the network is structurally cyclic) for every legal configuration x every event and the spontaneous step x all condition valuations of every enumerated small chart (all charts <= 4 states, <= 2 transitions) and of generated larger charts; the next configuration must equal the reference model's microstep under the transpilers' conflict relation.",
   note="Trusted: the equation parser/evaluator, VHDL and/or/not semantics, the reference model's single microstep. Clocked processes are not simulated; root signal state_next_0 not compared; event signal together with spontaneous_en=1 not evaluated. Fragment: no history/datamodel/<initial> element/deep initial.",
   technique="exhaustive situation enumeration per generated chart against a reference model (equation-level translation validation)"),
 'C20': dict(category='exploration', design_ref='DESIGN.md §4 C20',
   text="Metamorphic determinism check: every generated document (up to 4 nested invoked machines with ids) is transpiled by all three back-ends in three fresh processes of the un-sanitized build (ASLR on with cold cache, ASLR on with warm cache, ASLR off + malloc perturbation + padded environment) and interpreted twice; outputs must be byte-identical, traces identical.",
   note="Trusted: process-level variation actually moves pointer-derived artefacts (it did for the defect found). A particular layout cannot be forced. USCXML_CURRENT_MACHINE_INDEX is treated as input (fresh process per transformation).",
   technique="metamorphic property-based testing across process instances (Hypothesis)"),
 'C06': dict(category='translation_validation', design_ref='DESIGN.md §4 C06',
   text="Translation validation per generated program: each generated chart (promela datamodel; events produced by the chart's own <send>s) is emitted by ChartToPromela and the emitted model is executed by spin in simulation mode under three spin seeds (which must agree); its TRACE_EXECUTION output, mapped back through the emitted #defines and the annotated document, is compared with the interpreter's trace of the same document (states exited/entered, transitions taken, events dequeued, log values).",
   note="Trusted: spin's simulator, the trace parser, the mapping through #defines. spin is used as an executor only, never as a verifier. Never-stabilising charts (bounded channels) and charts without transitions are skipped and counted; differences explained by the transpilers' conflict relation are attributed to F-C06-1. No nested machines / delays.",
   technique="differential property-based testing of emitted Promela (spin simulation) vs interpreter (Hypothesis)"),
 'C07': dict(category='fault_enumeration', design_ref='DESIGN.md §4 C07',
   text="Fault injection: failing elements of six kinds are placed at generated positions of every kind of executable block (position histogram in the evidence), for the lua and promela datamodels and both engines; the full trace must equal the reference model's under the Recommendation's error rule (error.execution in the internal queue, only the remainder of that block skipped, interpreter keeps running). Robustness: text-level damaged documents and a coverage-guided libFuzzer campaign (load + validate + step under both engines) must never crash, hang or trip a sanitizer.",
   note="Trusted: reference model's error rule; sanitizers. Only error names/order compared. send with an illegal target not injected (Rec. ambiguous). The libFuzzer target skips documents referencing external resources.",
   technique="fault-injecting property-based testing against a reference model (Hypothesis) + libFuzzer with sanitizers"),
 'C14': dict(category='fault_enumeration', design_ref='DESIGN.md §4 C14',
   text="Snapshot-point enumeration: every run is serialized at every stable point; each snapshot (up to 8 per run) is deserialized into a fresh interpreter which is driven with the remaining events; continuation trace, final data and final serialized state must equal the original's; a snapshot fed to a mutated document must be rejected; pending delayed events must survive (template stream with 150-300 ms delays).",
   note="Trusted: worker observation. Stable notices not compared. Active invocations are not covered.",
   technique="snapshot/resume differential property-based testing (Hypothesis), both engines"),
 'C19': dict(category='exploration', design_ref='DESIGN.md §4 C19',
   text="Soundness: freely generated and then structurally damaged documents that validate() accepts (no FATAL) are run under both engines (no crash, no init failure, legal configuration after every step judged on the document's own tree) and transpiled by all three back-ends (no crash). Completeness: charts valid by construction with real lua/promela expressions must get no FATAL and no syntax-error warning. validate() itself must not crash on any of these documents.",
   note="Trusted: legality predicate on the document's own tree; generator validity. Warnings other than syntax errors ignored.",
   technique="property-based testing with structural mutation (Hypothesis); validator verdict vs execution"),
 'C08': dict(category='exploration', design_ref='DESIGN.md §4 C08',
   text="Randomised schedule exploration with real threads: 1-6 producer threads call receive() concurrently with a stepping thread (non-blocking, short and long blocking step) on generated charts that raise internal events and have eventless transitions; the interleaving is perturbed at USCXML_VERIF schedule points inside BasicEventQueue::enqueue/dequeue by a generated action vector. Invariants over the observed sequence: exactly-once, per-sender FIFO, and the reference model fed the observed external order must reproduce the whole trace (macrostep boundary). Thorough tier repeats under ThreadSanitizer. Sampling of schedules, not exhaustive.",
   note="Trusted: reference model, worker observation; the harness owns the schedule only at the hook points. Known selection findings are attributed by the exact quirk models.",
   technique="stateful / schedule-perturbing property-based testing (Hypothesis) with real threads, ASan/UBSan, TSan in thorough"),
 'C09': dict(category='exploration', design_ref='DESIGN.md §4 C09',
   text="Generated sets of delayed sends and cancels (immediate, or by an external event at a generated time around the due time) run on the real libevent timer thread; monotonic timestamps in the monitor callbacks decide exactly-once, not-early (timer granularity = coarse-clock tick), due order for well separated timers, never-after-a-clearly-earlier-cancel. Two forced schedules through USCXML_VERIF points: <cancel> executed while the timer thread sits between dequeuing and delivering that event; <send delay> executed while the timer thread is held inside a callback.",
   note="Trusted: steady_clock timestamps; only lower bounds on time and generous margins are asserted, lateness is never an error. Failures are re-run three times in fresh processes before they count.",
   technique="property-based testing with timestamp invariants + forced schedules at hook points (Hypothesis)"),
 'C10': dict(category='exploration', design_ref='DESIGN.md §4 C10',
   text="Model-based operation sequences (step, blocking step on a second thread, receive/cancel from either thread, reset, getState, isInState, destroy + re-create) on generated charts, from the pristine state on, checked against the life-cycle automaton (INSTANTIATED, INITIALIZED, ..., CANCELLED at most once and only after cancel, FINISHED absorbing), the completion bracket (every active state's onexit once, innermost first), bounded termination after cancel, release of a blocked step, destruction time; metamorphic: continuation after reset equals a fresh interpreter. Create/destroy churn with the timer thread parked at its run-flag test.",
   note="Trusted: the automaton (from InterpreterState.h, Interpreter.h, test-lifecycle.cpp). 'Always terminates' is bounded liveness with a watchdog. Sequences with a blocked step are excluded from the reset-equals-fresh comparison (timing dependent).",
   technique="stateful model-based property-based testing (Hypothesis) with a second thread and forced teardown schedules"),
 'C11': dict(category='exploration', design_ref='DESIGN.md §4 C11',
   text="A parametric family of parent/child chart pairs (child finishes early / late / never, sends to #_parent, echoes #_<invokeid> events, holds a delayed send; parent leaves the invoking state at a generated time by sibling transition, self-transition or finishing, optionally re-invokes; autoforward and finalize per invoke; one or two invokes) run with real threads; invariants over the merged, session-tagged, totally ordered monitor trace decide invoke/uninvoke exactly-once, done.invoke iff finished on its own, silence after afterUninvoking, routing, order, at-most/exactly-once, finalize-before-match. Forced schedules: child parked between FINISHED and the _isActive test while the parent leaves; parent parked on entry of USCXMLInvoker::stop.",
   note="Trusted: worker observation (monitor copied to invokers, records serialised under one lock). Only USCXMLInvoker; the chart family is parametric, not arbitrary chart pairs. 'Must arrive' clauses use a 60 ms margin, all others trace order.",
   technique="property-based testing over a parametric scenario family with timestamp/trace-order invariants and forced schedules (Hypothesis)"),
}
NOT_YET = "check not implemented yet in this session (see DESIGN.md §11 for the plan)"

def hooks_commits():
    try:
        out = subprocess.run(['git', '-C', '/repo', 'log', '--format=%H %s'], stdout=subprocess.PIPE, text=True).stdout
        return [l.split()[0] for l in out.splitlines() if l.split(' ', 1)[1].startswith('verif-hook:')]
    except Exception:
        return []

m = {
 'version': 1,
 'setup_cmd': 'python3 tools/setup.py',
 'hooks': {'guard': 'USCXML_VERIF',
           'enable': 'tools/build.py mirrors /repo into .work/mirror and builds it out of tree with -DUSCXML_VERIF added to CMAKE_CXX_FLAGS (variants san/tsan/fuzz/plain)',
           'baseline_off_cmd': 'python3 tools/baseline.py',
           'source_commits': hooks_commits(), 'add_only': True},
 'engines': [
   {'name': 'hypothesis-driver', 'path': 'pylib/harness.py', 'serves_properties': sorted(CHECKS), 'kind_free_text': 'Hypothesis strategies + sharded driver + persistent C++ worker (src/worker) linked against the sanitizer build of /repo'},
 ],
 'checks': [], 'not_applicable': [],
 'notes': 'All checks: ./check <id> [--tier quick|thorough] [--replay file]; env VERIF_SEED, VERIF_TIER, VERIF_JOBS. Exit 0 held / 1 VIOLATION / 2 check broken.'}
for i in ids:
    if i in CHECKS:
        c = CHECKS[i]
        m['checks'].append({'property_id': i, 'quick_cmd': './check %s --tier quick' % i, 'thorough_cmd': './check %s --tier thorough' % i,
                            'evidence_file': 'evidence/%s.json' % i, 'replay_cmd_template': './check %s --replay {path}' % i,
                            'engine': 'hypothesis-driver',
                            'level_claimed': {'category': c['category'], 'text': c['text'], 'design_ref': c['design_ref']},
                            'level_note': c['note'], 'technique': c['technique']})
    else:
        m['not_applicable'].append({'property_id': i, 'reason': NOT_YET})
json.dump(m, open(os.path.join(VERIF, 'MANIFEST.json'), 'w'), indent=1)
print('MANIFEST: %d checks, %d not_applicable' % (len(m['checks']), len(m['not_applicable'])))
