#!/usr/bin/env python3
"""Rebuild /repo/_build (guard OFF: the repo's own flags) and run the pinned suite; compare with BASELINE.json.
usage: baseline.py [--no-run]   exit 0 iff every stable_pass test passed."""
import json, subprocess, sys, os, xml.etree.ElementTree as ET
base = json.load(open('/root/.vp/BASELINE.json'))
stable = set(base['stable_pass'])
junit = '/tmp/uscxml-baseline.junit.xml'
if '--no-run' not in sys.argv:
    r = subprocess.run(['cmake', '--build', '/repo/_build', '-j', '16'], stdout=subprocess.PIPE, stderr=subprocess.STDOUT, text=True)
    if r.returncode != 0:
        print(r.stdout[-3000:]); print('BUILD FAILED'); sys.exit(2)
    subprocess.run(['ctest', '--test-dir', '/repo/_build', '-j8', '--timeout', '900', '--output-junit', junit],
                   stdout=subprocess.DEVNULL, stderr=subprocess.DEVNULL)
t = ET.parse(junit)
res = {}
for tc in t.getroot().iter('testcase'):
    name = tc.get('name')
    ok = tc.get('status') == 'run' and tc.find('failure') is None
    res[name + '::' + name] = ok
missing = [s for s in stable if s not in res]
failed = [s for s in stable if s in res and not res[s]]
print('stable tests: %d, passed: %d, failed: %d, missing: %d' % (len(stable), len(stable) - len(failed) - len(missing), len(failed), len(missing)))
for s in sorted(failed)[:40]:
    print('FAILED', s)
for s in sorted(missing)[:10]:
    print('MISSING', s)
sys.exit(0 if not failed and not missing else 1)
