# name -> (sources relative to /verif/src, extra link flags, kwargs for build_harness)
HARNESSES = {
    "worker": (["worker/worker.cpp", "worker/worker_core.cpp", "worker/worker_value.cpp", "worker/worker_xform.cpp", "worker/worker_conc.cpp"], [], {}),
    "fuzz_scxml": (["fuzz/fuzz_scxml.cpp"], [], {"link_fuzzer": True}),
    "fuzz_json": (["fuzz/fuzz_json.cpp"], [], {"link_fuzzer": True}),
}
