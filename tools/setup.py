#!/usr/bin/env python3
"""setup_cmd: build every variant and harness the checks use, from files on disk only."""
import subprocess, sys, os
VERIF = os.path.dirname(os.path.dirname(os.path.abspath(__file__)))
os.chdir(VERIF)
os.makedirs('.work/scratch', exist_ok=True)
steps = [
    ['python3', 'tools/build.py', 'san', '--harness', 'worker'],
    ['python3', 'tools/build.py', 'fuzz', '--harness', 'fuzz_json', 'fuzz_scxml'],
    ['python3', 'tools/build.py', 'plain', '--harness', 'worker'],
]
for s in steps:
    print('+', ' '.join(s), flush=True)
    r = subprocess.run(s)
    if r.returncode != 0:
        sys.exit(r.returncode)
print('setup done')
