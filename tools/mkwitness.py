#!/usr/bin/env python3
"""Builds the committed witness / corpus files from hand-written charts (run once; output is committed)."""
import sys, os, json
VERIF = os.path.dirname(os.path.dirname(os.path.abspath(__file__)))
sys.path.insert(0, os.path.join(VERIF, 'pylib')); sys.path.insert(0, os.path.join(VERIF, 'props'))
from chart import *
import harness
from chartcase import case_repr


def S(id, *children, **kw):
    return State('state', id=id, children=list(children), **kw)


def write(path, prop, kind, ch, events, note, extra=None):
    os.makedirs(os.path.dirname(path), exist_ok=True)
    case = case_repr(ch, events)
    if extra:
        case.update(extra)
    json.dump({"property": prop, "kind": kind, "note": note, "case": case}, open(path, 'w'), indent=1, sort_keys=True)
    print('wrote', path)


def nested_history():
    s3 = S('s3', transitions=[Trans(['a'], targets=['h0'])])
    s4 = S('s4')
    h1 = State('history', id='h1', hist_type='shallow', transitions=[Trans(targets=['s3', 's4'])])
    s2 = State('parallel', id='s2', children=[s3, s4, h1])
    h0 = State('history', id='h0', hist_type='deep', transitions=[Trans(targets=['s2'])])
    s1 = S('s1', s2, h0)
    s0 = S('s0', transitions=[Trans(['a'], targets=['s1'])])
    root = State('scxml', children=[s0, s1])
    return Chart(root, 'lua'), ['a', 'a']


def large_select():
    s1 = S('s1', transitions=[Trans(['a'], targets=['s0'])])
    s2 = S('s2', transitions=[Trans(['a'], targets=['s0'])])
    s3 = S('s3', transitions=[Trans(['a'], targets=['s0'])])
    s0 = State('parallel', id='s0', children=[s1, s2, s3], transitions=[Trans(['a'])])
    return Chart(State('scxml', children=[s0]), 'lua'), ['a']


def fast_select():
    s1 = S('s1', transitions=[Trans(['a'])])
    s2 = S('s2', transitions=[Trans(['c'])])
    s0 = State('parallel', id='s0', children=[s1, s2], transitions=[Trans(['a'], content=[Log('TP', ('c', 1))])])
    return Chart(State('scxml', children=[s0]), 'lua'), ['a']


def nested_history_tables():
    s2 = S('s2')
    h1 = State('history', id='h1', hist_type='shallow', transitions=[Trans(targets=['s2'])])
    s1 = S('s1', s2, h1)
    h0 = State('history', id='h0', hist_type='deep', transitions=[Trans(targets=['s1'])])
    s0 = S('s0', s1, h0)
    return Chart(State('scxml', children=[s0]), 'null'), []


if __name__ == '__main__':
    ch, ev = nested_history_tables()
    write(os.path.join(VERIF, 'corpus/C05/known/F-C05-1.json'), 'C05', 'table-mismatch', ch, ev,
          "shallow history nested below a deep history's parent: the transpilers hand every descendant to the first history in "
          "post-fix order of the (re-sorted) DOM, which is the outer deep one, so the inner history's completion is empty")
    ch, ev = large_select()
    write(os.path.join(VERIF, 'corpus/C01/known/F-C01-1.json'), 'C01', 'trace-mismatch', ch, ev,
          "targetless transition on a parallel state plus conflicting transitions in all regions: W3C takes the first region's only")
    ch, ev = fast_select()
    write(os.path.join(VERIF, 'corpus/C03/known/F-C03-1.json'), 'C03', 'engine-mismatch', ch, ev,
          "targetless transitions on a parallel and on a state in one region: W3C and large take both, fast only the region's")
    ch, ev = nested_history()
    note = ("transition into the never recorded deep history h0 of s1 after the nested shallow history h1 of s2 was recorded: "
            "the engines keep one shared set of remembered states, so h0 appears recorded and 'restores' s3,s4 without s2")
    write(os.path.join(VERIF, 'corpus/C01/known/F-C01-2.json'), 'C01', 'trace-mismatch', ch, ev, note)
    write(os.path.join(VERIF, 'corpus/C02/known/F-C02-1.json'), 'C02', 'illegal-configuration', ch, ev, note, {"engine": "large"})
