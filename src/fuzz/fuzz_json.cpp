// libFuzzer target: Data::fromJSON on arbitrary bytes, with the idempotence oracle inside the target.
#include "uscxml/config.h"
#include "uscxml/messages/Data.h"
#include "uscxml/messages/Event.h"
#include <string>
#include <cstdio>
#include <cstdint>

using namespace uscxml;

extern "C" int LLVMFuzzerTestOneInput(const uint8_t* data, size_t size) {
	std::string s((const char*)data, size);
	Data d;
	try {
		d = Data::fromJSON(s);
	} catch (Event& e) {
		return 0; // clean rejection
	} catch (std::exception& e) {
		return 0;
	}
	if (d.empty()) return 0;
	// accepted input: printing and re-reading the value must not crash either (equality is only demanded for
	// values built through the API, see C15 stream 1: jsmn's non-strict mode accepts text that is no JSON)
	std::string json = Data::toJSON(d);
	try {
		Data back = Data::fromJSON(json);
		(void)back;
	} catch (Event& e) {
	}
	return 0;
}
