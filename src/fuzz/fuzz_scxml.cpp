// libFuzzer target: load arbitrary bytes as an SCXML document, validate it, step it a bounded number of times under
// both engines, feeding two events. Oracle: no crash, no sanitizer report, no hang; ErrorEvents are clean rejections.
#include "uscxml/config.h"
#include "uscxml/Interpreter.h"
#include "uscxml/interpreter/InterpreterImpl.h"
#include "uscxml/interpreter/LoggingImpl.h"
#include "uscxml/debug/InterpreterIssue.h"
#include "uscxml/plugins/Factory.h"
#include <string>
#include <cstdint>
#include <cstring>

using namespace uscxml;

class NullLogger : public LoggerImpl {
public:
	virtual std::shared_ptr<LoggerImpl> create() { return std::shared_ptr<LoggerImpl>(new NullLogger()); }
	virtual void log(LogSeverity severity, const Event& event) {}
	virtual void log(LogSeverity severity, const Data& data) {}
	virtual void log(LogSeverity severity, const std::string& message) {}
};

static void runOnce(const std::string& xml, const char* engine) {
	try {
		Interpreter interp = Interpreter::fromXML(xml, "");
		ActionLanguage al;
		al.logger = Logger(std::shared_ptr<LoggerImpl>(new NullLogger()));
		al.microStepper = MicroStep(Factory::getInstance()->createMicroStepper(engine, (MicroStepCallbacks*)(interp.getImpl().get())));
		interp.setActionLanguage(al);
		interp.validate();
		int fed = 0;
		for (int i = 0; i < 60; i++) {
			InterpreterState st = interp.step(0);
			if (st == USCXML_FINISHED) break;
			if (st == USCXML_IDLE) {
				if (fed == 0) interp.receive(Event("a", Event::EXTERNAL));
				else if (fed == 1) interp.receive(Event("foo.bar", Event::EXTERNAL));
				else break;
				fed++;
			}
		}
	} catch (Event& e) {
	} catch (std::exception& e) {
	}
}

extern "C" int LLVMFuzzerTestOneInput(const uint8_t* data, size_t size) {
	std::string xml((const char*)data, size);
	// no network / file / process access from fuzzed documents: skip inputs that reference external resources
	if (xml.find("src=") != std::string::npos || xml.find("srcexpr") != std::string::npos || xml.find("http") != std::string::npos ||
	        xml.find("file:") != std::string::npos || xml.find("<invoke") != std::string::npos || xml.find("os.") != std::string::npos ||
	        xml.find("io.") != std::string::npos || xml.find("delay") != std::string::npos || xml.find("ENTITY") != std::string::npos ||
	        xml.find("while") != std::string::npos || xml.find("repeat") != std::string::npos || xml.find("for ") != std::string::npos)
		return 0;
	runOnce(xml, "large");
	runOnce(xml, "fast");
	return 0;
}
