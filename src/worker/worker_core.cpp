// run / validate commands
#include "uscxml/config.h"
#include "uscxml/Interpreter.h"
#include "uscxml/interpreter/InterpreterImpl.h"
#include "uscxml/interpreter/InterpreterMonitor.h"
#include "uscxml/interpreter/LoggingImpl.h"
#include "uscxml/debug/InterpreterIssue.h"
#include "uscxml/util/String.h"
#include "uscxml/util/DOM.h"
#include "uscxml/plugins/Factory.h"
#include <xercesc/dom/DOM.hpp>
#include <sstream>
#include <thread>
#include <chrono>
#include "jw.h"
#include "worker_cmds.h"
#include "worker_util.h"

using namespace uscxml;
using namespace XERCESC_NS;

std::string eid(const DOMElement* e) {
	if (!e) return "?";
	if (HAS_ATTR(e, X("vid"))) return ATTR(e, X("vid"));
	if (HAS_ATTR(e, X("id"))) return ATTR(e, X("id"));
	std::string tag = X(e->getLocalName() ? e->getLocalName() : e->getTagName()).str();
	if (tag == "scxml") return "#root";
	return DOMUtils::xPathForNode(e);
}

void dumpData(JW& w, const Data& d, int depth) {
	if (depth > 32) { w.str("<deep>"); return; }
	if (!d.compound.empty()) {
		w.beginObj();
		for (auto& kv : d.compound) { w.key(kv.first); dumpData(w, kv.second, depth + 1); }
		w.endObj();
	} else if (!d.array.empty()) {
		w.beginArr();
		for (auto& x : d.array) dumpData(w, x, depth + 1);
		w.endArr();
	} else if (d.node) {
		w.beginObj().key("$node").str("node").endObj();
	} else if (d.binary) {
		w.beginObj().key("$binary").num(1).endObj();
	} else {
		// atom: [type, text]
		w.beginArr().str(d.type == Data::VERBATIM ? "v" : "i").str(d.atom).endArr();
	}
}

class RecLogger : public LoggerImpl {
public:
	JW* w;
	bool all;
	RecLogger(JW* w_, bool all_ = false) : w(w_), all(all_) {}
	virtual std::shared_ptr<LoggerImpl> create() { return std::shared_ptr<LoggerImpl>(new RecLogger(w, all)); }
	virtual void log(LogSeverity severity, const Event& event) {}
	virtual void log(LogSeverity severity, const Data& data) {}
	virtual void log(LogSeverity severity, const std::string& message) {
		if (severity == USCXML_LOG || severity == USCXML_VERBATIM) {
			std::lock_guard<std::recursive_mutex> lock(g_recMutex);
			w->beginArr().str("log").str(message).endArr();
		} else if (all) {
			std::lock_guard<std::recursive_mutex> lock(g_recMutex);
			w->beginArr().str("msg").num(severity).str(message).endArr();
		}
	}
};
std::recursive_mutex g_recMutex;

class RecMonitor : public InterpreterMonitor {
public:
	JW* w;
	Interpreter* interp;
	bool cfgInCallbacks;
	bool ts;
	std::string mainSession;
	RecMonitor(JW* w_) : w(w_), interp(NULL), cfgInCallbacks(false), ts(false) {}
	void stamp() {
		if (ts) w->num(std::chrono::duration_cast<std::chrono::microseconds>(std::chrono::steady_clock::now().time_since_epoch()).count());
	}

	void sess(const std::string& sessionId) {
		// record the session only for invoked children (different from the main one)
		if (mainSession.size() && sessionId != mainSession) w->str("@" + sessionId);
		else if (ts) w->str("");
		stamp();
	}
#define LOCK std::lock_guard<std::recursive_mutex> lock(g_recMutex)
	void ev0(const char* n, const std::string& s) { LOCK; w->beginArr().str(n); sess(s); w->endArr(); }
	void ev1(const char* n, const std::string& s, const DOMElement* e) { LOCK; w->beginArr().str(n).str(eid(e)); sess(s); w->endArr(); }
	void ev2(const char* n, const std::string& s, const DOMElement* e, const std::string& x) { LOCK; w->beginArr().str(n).str(eid(e)).str(x); sess(s); w->endArr(); }

	virtual void beforeProcessingEvent(const std::string& s, const Event& event) {
		LOCK;
		w->beginArr().str("ev").str(event.name).num(event.eventType);
		dumpData(*w, event.data, 0);
		w->str(event.sendid).str(event.invokeid).str(event.origin).str(event.origintype);
		sess(s);
		w->endArr();
	}
	virtual void beforeMicroStep(const std::string& s) { ev0("bm", s); }
	virtual void beforeExitingState(const std::string& s, const std::string& n, const DOMElement* e) { ev1("bx", s, e); }
	virtual void afterExitingState(const std::string& s, const std::string& n, const DOMElement* e) { ev1("ax", s, e); }
	virtual void beforeExecutingContent(const std::string& s, const DOMElement* e) { ev1("bc", s, e); }
	virtual void afterExecutingContent(const std::string& s, const DOMElement* e) { ev1("ac", s, e); }
	virtual void beforeUninvoking(const std::string& s, const DOMElement* e, const std::string& id) { ev2("bu", s, e, id); }
	virtual void afterUninvoking(const std::string& s, const DOMElement* e, const std::string& id) { ev2("au", s, e, id); }
	virtual void beforeTakingTransition(const std::string& s, const DOMElement* e) { ev1("bt", s, e); }
	virtual void afterTakingTransition(const std::string& s, const DOMElement* e) { ev1("at", s, e); }
	virtual void beforeEnteringState(const std::string& s, const std::string& n, const DOMElement* e) { ev1("be", s, e); }
	virtual void afterEnteringState(const std::string& s, const std::string& n, const DOMElement* e) { ev1("ae", s, e); }
	virtual void beforeInvoking(const std::string& s, const DOMElement* e, const std::string& id) { ev2("bi", s, e, id); }
	virtual void afterInvoking(const std::string& s, const DOMElement* e, const std::string& id) { ev2("ai", s, e, id); }
	virtual void afterMicroStep(const std::string& s) { ev0("am", s); }
	virtual void onStableConfiguration(const std::string& s) { ev0("stable", s); }
	virtual void beforeCompletion(const std::string& s) { ev0("bcomp", s); }
	virtual void afterCompletion(const std::string& s) { ev0("acomp", s); }
	virtual void reportIssue(const std::string& s, const InterpreterIssue& issue) {
		LOCK;
		w->beginArr().str("issue").str(issue.message).endArr();
	}
};

std::map<std::string, std::string> parseOpts(const std::string& s) {
	std::map<std::string, std::string> m;
	std::istringstream is(s);
	std::string tok;
	while (is >> tok) {
		size_t eq = tok.find('=');
		if (eq == std::string::npos) m[tok] = "1";
		else m[tok.substr(0, eq)] = tok.substr(eq + 1);
	}
	return m;
}

std::vector<std::string> splitLines(const std::string& s) {
	std::vector<std::string> v;
	size_t pos = 0;
	while (pos < s.size()) {
		size_t nl = s.find('\n', pos);
		if (nl == std::string::npos) nl = s.size();
		if (nl > pos) v.push_back(s.substr(pos, nl - pos));
		pos = nl + 1;
	}
	return v;
}

void recordConfig(JW& w, Interpreter& interp) {
	std::lock_guard<std::recursive_mutex> lock(g_recMutex);
	w.beginArr().str("cfg");
	w.beginArr();
	for (auto e : interp.getConfiguration()) w.str(eid(e));
	w.endArr();
	w.endArr();
}

static const char* stateName(InterpreterState s) {
	switch (s) {
	case USCXML_FINISHED: return "FINISHED";
	case USCXML_UNDEF: return "UNDEF";
	case USCXML_IDLE: return "IDLE";
	case USCXML_INITIALIZED: return "INITIALIZED";
	case USCXML_INSTANTIATED: return "INSTANTIATED";
	case USCXML_MICROSTEPPED: return "MICROSTEPPED";
	case USCXML_MACROSTEPPED: return "MACROSTEPPED";
	case USCXML_CANCELLED: return "CANCELLED";
	}
	return "?";
}
const char* istateName(int s) { return stateName((InterpreterState)s); }

void setupInterpreter(Interpreter& interp, const std::string& engine, JW* trace, bool allLog, const std::string& dm) {
	ActionLanguage al;
	al.logger = Logger(std::shared_ptr<LoggerImpl>(new RecLogger(trace, allLog)));
	if (engine == "fast" || engine == "large") {
		al.microStepper = MicroStep(Factory::getInstance()->createMicroStepper(engine, (MicroStepCallbacks*)(interp.getImpl().get())));
	}
	interp.setActionLanguage(al);
}

// run: xml, engine, events, opts -> {"trace":[...], "final": state, "steps": n}
// events: one per line, "name" or "name\tJSON-ish atom" (data as VERBATIM string) ; special "!cancel"
static std::string cmdRun(const std::vector<std::string>& a) {
	const std::string& xml = a.at(1);
	std::string engine = a.size() > 2 ? a[2] : "large";
	std::vector<std::string> events = splitLines(a.size() > 3 ? a[3] : "");
	auto opts = parseOpts(a.size() > 4 ? a[4] : "");
	long maxSteps = opts.count("maxsteps") ? atol(opts["maxsteps"].c_str()) : 400;
	long idleWaitMs = opts.count("idlewait") ? atol(opts["idlewait"].c_str()) : 0; // total ms to wait at IDLE for delayed events when no events left
	bool allLog = opts.count("alllog");
	bool validateFirst = opts.count("validate");
	bool dataAtEnd = opts.count("data");
	bool serAtStable = opts.count("ser");

	JW w;
	w.beginObj();
	std::string finalState = "?";
	long steps = 0;
	bool budget = false;
	std::string exc;
	std::string dataDump;
	w.key("trace").beginArr();
	try {
		Interpreter interp = Interpreter::fromXML(xml, opts.count("base") ? opts["base"] : "");
		setupInterpreter(interp, engine, &w, allLog, "");
		RecMonitor mon(&w);
		mon.interp = &interp;
		mon.copyToInvokers(opts.count("copymon") > 0);
		interp.addMonitor(&mon);
		if (validateFirst) {
			auto issues = interp.validate();
			for (auto& i : issues) {
				w.beginArr().str("vissue").num(i.severity).str(i.message).str(i.xPath).endArr();
			}
		}
		if (a.size() > 5 && a[5].size() > 0) {
			// resume from a serialized state (C14)
			try {
				interp.deserialize(a[5]);
				std::lock_guard<std::recursive_mutex> lock(g_recMutex);
				w.beginArr().str("deserialized").endArr();
			} catch (Event& e) {
				std::stringstream ss; ss << e.data;
				std::lock_guard<std::recursive_mutex> lock(g_recMutex);
				w.beginArr().str("deserialize-rejected").str(e.name + ": " + ss.str().substr(0, 200)).endArr();
				throw;
			}
		}
		size_t nextEv = 0;
		long waited = 0;
		InterpreterState st = USCXML_UNDEF;
		while (true) {
			st = interp.step(0);
			steps++;
			if (mon.mainSession.empty() && interp.getImpl()) mon.mainSession = interp.getImpl()->getSessionId();
			{
				std::lock_guard<std::recursive_mutex> lock(g_recMutex);
				w.beginArr().str("st").str(stateName(st)).endArr();
			}
			if (st != USCXML_INITIALIZED) recordConfig(w, interp);
			if (serAtStable && (st == USCXML_MACROSTEPPED || st == USCXML_IDLE)) {
				std::string ser = interp.serialize();
				std::lock_guard<std::recursive_mutex> lock(g_recMutex);
				w.beginArr().str("ser").str(ser).endArr();
			}
			if (st == USCXML_FINISHED) break;
			if (st == USCXML_IDLE) {
				if (nextEv < events.size()) {
					const std::string& line = events[nextEv++];
					if (line == "!cancel") {
						interp.cancel();
					} else {
						size_t tab = line.find('\t');
						Event e(tab == std::string::npos ? line : line.substr(0, tab), Event::EXTERNAL);
						if (tab != std::string::npos) e.data = Data(line.substr(tab + 1), Data::VERBATIM);
						interp.receive(e);
						std::lock_guard<std::recursive_mutex> lock(g_recMutex);
						w.beginArr().str("fed").str(e.name).endArr();
					}
					waited = 0;
				} else if (waited < idleWaitMs) {
					std::this_thread::sleep_for(std::chrono::milliseconds(2));
					waited += 2;
				} else {
					break;
				}
			}
			if (steps >= maxSteps) { budget = true; break; }
		}
		finalState = stateName(st);
		if (dataAtEnd && opts.count("vars")) {
			// vars=a,b,c : evaluate each as data
			std::string vars = opts["vars"];
			JW dw;
			dw.beginObj();
			size_t p = 0;
			while (p < vars.size()) {
				size_t c = vars.find(',', p);
				if (c == std::string::npos) c = vars.size();
				std::string v = vars.substr(p, c - p);
				p = c + 1;
				if (v.empty()) continue;
				try {
					Data d = interp.getImpl()->evalAsData(v);
					dw.key(v);
					dumpData(dw, d, 0);
				} catch (Event& e) {
					dw.key(v).beginObj().key("$error").str(e.name).endObj();
				}
			}
			dw.endObj();
			dataDump = dw.s;
		}
		interp.removeMonitor(&mon);
	} catch (Event& e) {
		exc = e.name.size() ? e.name : "event";
		std::stringstream ss; ss << e.data;
		exc += ": " + ss.str();
	}
	w.endArr();
	w.key("final").str(finalState);
	w.key("steps").num(steps);
	w.key("budget").boolean(budget);
	if (exc.size()) w.key("exception").str(exc);
	if (dataDump.size()) w.key("data").raw(dataDump);
	w.endObj();
	return w.s;
}

static std::string cmdValidate(const std::vector<std::string>& a) {
	JW w;
	w.beginObj();
	try {
		Interpreter interp = Interpreter::fromXML(a.at(1), "");
		auto issues = interp.validate();
		w.key("issues").beginArr();
		for (auto& i : issues) {
			w.beginArr().num(i.severity).str(i.message).str(i.xPath).endArr();
		}
		w.endArr();
	} catch (Event& e) {
		std::stringstream ss; ss << e.data;
		w.key("exception").str(e.name + ": " + ss.str());
	}
	w.endObj();
	return w.s;
}

static std::string cmdPing(const std::vector<std::string>& a) {
	return "{\"pong\":true}";
}

InterpreterMonitor* newRecMonitor(JW* w, bool copyToInvokers, bool timestamps) {
	RecMonitor* m = new RecMonitor(w);
	m->ts = timestamps;
	m->copyToInvokers(copyToInvokers);
	return m;
}

void recMonitorSetMain(InterpreterMonitor* m, const std::string& session) {
	static_cast<RecMonitor*>(m)->mainSession = session;
}

void registerCoreCmds() {
	cmdTable()["run"] = cmdRun;
	cmdTable()["validate"] = cmdValidate;
	cmdTable()["ping"] = cmdPing;
}
