// Persistent worker: executes requests from the Python property drivers against the
// library built from /repo's working tree.  Protocol (binary safe, no JSON parsing here):
//   request : "<nargs>\n" then per arg "<len>\n<bytes>\n"        (arg0 = command)
//   response: "<len>\n<bytes>\n"  (bytes = one JSON document, written by jw below)
// fd 1/2 of the process are redirected so that library log output cannot corrupt the protocol.
#include "uscxml/config.h"
#include "uscxml/Interpreter.h"
#include "uscxml/interpreter/InterpreterImpl.h"
#include "uscxml/interpreter/InterpreterMonitor.h"
#include "uscxml/interpreter/LoggingImpl.h"
#include "uscxml/debug/InterpreterIssue.h"
#include "uscxml/util/String.h"
#include "uscxml/util/DOM.h"
#include "uscxml/transform/ChartToC.h"
#include "uscxml/transform/ChartToPromela.h"
#include "uscxml/transform/ChartToVHDL.h"
#include "uscxml/plugins/Factory.h"

#include <xercesc/dom/DOM.hpp>
#include <unistd.h>
#include <fcntl.h>
#include <cstdio>
#include <cstring>
#include <iostream>
#include <sstream>
#include <vector>
#include <string>
#include <functional>
#include <map>

#include "jw.h"
#include "worker_cmds.h"

using namespace uscxml;
using namespace XERCESC_NS;

static FILE* g_in = NULL;
static FILE* g_out = NULL;

static bool readLine(std::string& line) {
	line.clear();
	int c;
	while ((c = fgetc(g_in)) != EOF) {
		if (c == '\n') return true;
		line.push_back((char)c);
	}
	return false;
}

static bool readArg(std::string& arg) {
	std::string l;
	if (!readLine(l)) return false;
	size_t len = strtoul(l.c_str(), NULL, 10);
	arg.resize(len);
	if (len > 0 && fread(&arg[0], 1, len, g_in) != len) return false;
	fgetc(g_in); // trailing newline
	return true;
}

static void writeResp(const std::string& s) {
	fprintf(g_out, "%zu\n", s.size());
	fwrite(s.data(), 1, s.size(), g_out);
	fputc('\n', g_out);
	fflush(g_out);
}

std::map<std::string, CmdFn>& cmdTable() {
	static std::map<std::string, CmdFn> t;
	return t;
}

int main(int argc, char** argv) {
	// protocol on dup'ed fds; fd1 -> /dev/null, fd2 stays (sanitizer reports) unless quiet
	int in = dup(0), out = dup(1);
	int devnull = open("/dev/null", O_WRONLY);
	dup2(devnull, 1);
	int devnull_in = open("/dev/null", O_RDONLY);
	dup2(devnull_in, 0);
	g_in = fdopen(in, "rb");
	g_out = fdopen(out, "wb");
	std::ios::sync_with_stdio(true);

	registerCoreCmds();
	registerValueCmds();
	registerXformCmds();
	registerConcCmds();

	std::string l;
	while (readLine(l)) {
		int n = atoi(l.c_str());
		std::vector<std::string> args(n);
		for (int i = 0; i < n; i++) {
			if (!readArg(args[i])) return 0;
		}
		if (n == 0) continue;
		if (args[0] == "quit") break;
		std::string resp;
		auto it = cmdTable().find(args[0]);
		if (it == cmdTable().end()) {
			resp = "{\"error\":\"unknown command\"}";
		} else {
			try {
				resp = it->second(args);
			} catch (uscxml::Event& e) {
				JW w;
				w.beginObj().key("exception").str(e.name).key("what").str(toStr(e.data)).endObj();
				resp = w.s;
			} catch (std::exception& e) {
				JW w;
				w.beginObj().key("exception").str("std").key("what").str(e.what()).endObj();
				resp = w.s;
			} catch (...) {
				resp = "{\"exception\":\"unknown\"}";
			}
		}
		writeResp(resp);
	}
	fflush(g_out);
	_exit(0); // skip static destructors (library singletons with threads)
}
