// value-level commands: namematch
#include "uscxml/config.h"
#include "uscxml/Interpreter.h"
#include "uscxml/util/String.h"
#include "uscxml/messages/Data.h"
#include "uscxml/messages/Event.h"
#include <sstream>
#include "jw.h"
#include "worker_cmds.h"
#include "worker_util.h"

using namespace uscxml;

// namematch: descs, name  (batch: further pairs) -> {"r":[bool...]}
static std::string cmdNameMatch(const std::vector<std::string>& a) {
	JW w;
	w.beginObj().key("r").beginArr();
	for (size_t i = 1; i + 1 < a.size(); i += 2) w.boolean(nameMatch(a[i], a[i + 1]));
	w.endArr().endObj();
	return w.s;
}

void registerValueCmds() {
	cmdTable()["namematch"] = cmdNameMatch;
}
