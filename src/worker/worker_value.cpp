// value-level commands: namematch
#include "uscxml/config.h"
#include "uscxml/Interpreter.h"
#include "uscxml/util/String.h"
#include "uscxml/messages/Data.h"
#include "uscxml/messages/Event.h"
#include <sstream>
#include "jw.h"
#include "worker_cmds.h"
#include "worker_util.h"

using namespace uscxml;

// namematch: descs, name  (batch: further pairs) -> {"r":[bool...]}
static std::string cmdNameMatch(const std::vector<std::string>& a) {
	JW w;
	w.beginObj().key("r").beginArr();
	for (size_t i = 1; i + 1 < a.size(); i += 2) w.boolean(nameMatch(a[i], a[i + 1]));
	w.endArr().endObj();
	return w.s;
}

void registerValueCmds2();
void registerValueCmds3();
void registerValueCmds() {
	cmdTable()["namematch"] = cmdNameMatch;
	registerValueCmds2();
	registerValueCmds3();
}

// ---- Data tree wire format (python -> worker): a<t><len>:<bytes>  A<n> items  M<n> (<len>:<key> value)* ----
static size_t rdNum(const std::string& s, size_t& p, char term) {
	size_t n = 0;
	while (p < s.size() && s[p] != term) { n = n * 10 + (s[p] - '0'); p++; }
	p++;
	return n;
}

static Data rdTree(const std::string& s, size_t& p) {
	Data d;
	char k = s[p++];
	if (k == 'a') {
		char t = s[p++];
		size_t len = rdNum(s, p, ':');
		d.atom = s.substr(p, len);
		p += len;
		d.type = (t == 'v' ? Data::VERBATIM : Data::INTERPRETED);
	} else if (k == 'A') {
		size_t n = rdNum(s, p, ';');
		for (size_t i = 0; i < n; i++) d.array.push_back(rdTree(s, p));
	} else if (k == 'M') {
		size_t n = rdNum(s, p, ';');
		for (size_t i = 0; i < n; i++) {
			size_t len = rdNum(s, p, ':');
			std::string key = s.substr(p, len);
			p += len;
			d.compound[key] = rdTree(s, p);
		}
	}
	return d;
}

Data treeFromWire(const std::string& s) {
	size_t p = 0;
	return rdTree(s, p);
}

// jsonrt: tree -> {"json": text, "in": dump, "out": dump, "equal": Data::operator==}
static std::string cmdJsonRT(const std::vector<std::string>& a) {
	JW w;
	w.beginObj();
	Data d = treeFromWire(a.at(1));
	std::string json = Data::toJSON(d);
	w.key("json").str(json);
	w.key("in"); dumpData(w, d, 0);
	try {
		Data back = Data::fromJSON(json);
		w.key("out"); dumpData(w, back, 0);
		w.key("equal").boolean(back == d);
		// second trip must be a fixed point
		std::string json2 = Data::toJSON(back);
		w.key("json2equal").boolean(json2 == json);
	} catch (Event& e) {
		std::stringstream ss; ss << e.data;
		w.key("exception").str(e.name + ": " + ss.str());
	}
	w.endObj();
	return w.s;
}

// jsonparse: bytes -> {"ok":bool, "out": dump, "idem": bool} ; never crashes / hangs
static std::string cmdJsonParse(const std::vector<std::string>& a) {
	JW w;
	w.beginObj();
	try {
		Data d = Data::fromJSON(a.at(1));
		w.key("ok").boolean(true);
		w.key("empty").boolean(d.empty());
		w.key("out"); dumpData(w, d, 0);
		if (!d.empty()) {
			std::string json = Data::toJSON(d);
			Data back = Data::fromJSON(json);
			w.key("json").str(json);
			w.key("idem").boolean(back == d);
			w.key("back"); dumpData(w, back, 0);
		}
	} catch (Event& e) {
		w.key("ok").boolean(false);
		w.key("exception").str(e.name);
	}
	w.endObj();
	return w.s;
}

static void dumpEvent(JW& w, const Event& e) {
	w.beginObj();
	w.key("name").str(e.name).key("eventType").num(e.eventType).key("origin").str(e.origin).key("origintype").str(e.origintype);
	w.key("sendid").str(e.sendid).key("hideSendId").boolean(e.hideSendId).key("invokeid").str(e.invokeid).key("raw").str(e.raw);
	w.key("data"); dumpData(w, e.data, 0);
	w.key("namelist").beginObj();
	for (auto& kv : e.namelist) { w.key(kv.first); dumpData(w, kv.second, 0); }
	w.endObj();
	w.key("params").beginArr();
	for (auto& kv : e.params) { w.beginArr().str(kv.first); dumpData(w, kv.second, 0); w.endArr(); }
	w.endArr();
	w.endObj();
}

// eventrt: name, eventType, origin, origintype, sendid, invokeid, raw, dataTree, namelistTree(M), paramsTree(A of M1) [, "json"]
static std::string cmdEventRT(const std::vector<std::string>& a) {
	JW w;
	w.beginObj();
	Event e(a.at(1), (Event::Type)atoi(a.at(2).c_str()));
	e.origin = a.at(3); e.origintype = a.at(4); e.sendid = a.at(5); e.invokeid = a.at(6); e.raw = a.at(7);
	e.data = treeFromWire(a.at(8));
	Data nl = treeFromWire(a.at(9));
	e.namelist = nl.compound;
	Data ps = treeFromWire(a.at(10));
	for (auto& p : ps.array) {
		if (!p.compound.empty()) e.params.insert(std::make_pair(p.compound.begin()->first, p.compound.begin()->second));
	}
	bool viaJson = a.size() > 11 && a[11] == "json";
	w.key("in"); dumpEvent(w, e);
	try {
		Data d = (Data)e;
		if (viaJson) d = Data::fromJSON(Data::toJSON(d));
		Event back = Event::fromData(d);
		w.key("out"); dumpEvent(w, back);
		w.key("equal").boolean(back == e);
	} catch (Event& ex) {
		w.key("exception").str(ex.name);
	}
	w.endObj();
	return w.s;
}

static struct RegMore { RegMore() {} } regMore;
void registerValueCmds2() {
	cmdTable()["jsonrt"] = cmdJsonRT;
	cmdTable()["jsonparse"] = cmdJsonParse;
	cmdTable()["eventrt"] = cmdEventRT;
}

// ---- datamodel command: dm <xml> <op>... ; ops: e<expr> b<expr> a<loc>\x1f<expr> i<loc>\x1f<type>\x1f<expr> v<loc>\x1f<tree> (assign value tree)
// -> {"r":[{"v":dump}|{"b":bool}|{"ok":true}|{"err":name}...]}
static std::string cmdDM(const std::vector<std::string>& a) {
	JW w;
	w.beginObj();
	try {
		Interpreter interp = Interpreter::fromXML(a.at(1), "");
		JW dummy;
		setupInterpreter(interp, "", &dummy, false, "");
		auto runToIdle = [&]() {
			for (int i = 0; i < 100; i++) {
				InterpreterState st = interp.step(0);
				if (st == USCXML_IDLE || st == USCXML_FINISHED) break;
			}
		};
		runToIdle();
		DataModel& dm = interp.getActionLanguage()->dataModel;
		w.key("r").beginArr();
		for (size_t i = 2; i < a.size(); i++) {
			const std::string& op = a[i];
			char k = op.empty() ? '?' : op[0];
			std::string rest = op.substr(1);
			w.beginObj();
			try {
				if (k == 'e') {
					Data d = dm.evalAsData(rest);
					w.key("v"); dumpData(w, d, 0);
				} else if (k == 'b') {
					w.key("b").boolean(dm.evalAsBool(rest));
				} else if (k == 'a') {
					size_t s = rest.find('\x1f');
					dm.assign(rest.substr(0, s), Data(rest.substr(s + 1), Data::INTERPRETED));
					w.key("ok").boolean(true);
				} else if (k == 'v') {
					size_t s = rest.find('\x1f');
					dm.assign(rest.substr(0, s), treeFromWire(rest.substr(s + 1)));
					w.key("ok").boolean(true);
				} else if (k == 'i') {
					size_t s1 = rest.find('\x1f');
					size_t s2 = rest.find('\x1f', s1 + 1);
					std::map<std::string, std::string> attr;
					attr["type"] = rest.substr(s1 + 1, s2 - s1 - 1);
					std::string ex = rest.substr(s2 + 1);
					dm.init(rest.substr(0, s1), ex.size() ? Data(ex, Data::INTERPRETED) : Data(), attr);
					w.key("ok").boolean(true);
				} else if (k == 'r') {
					size_t s1 = rest.find('\x1f');
					Event ev(rest.substr(0, s1), Event::EXTERNAL);
					if (s1 != std::string::npos) ev.data = treeFromWire(rest.substr(s1 + 1));
					interp.receive(ev);
					runToIdle();
					w.key("ok").boolean(true);
				} else if (k == 'x') {
					dm.eval(rest);
					w.key("ok").boolean(true);
				} else {
					w.key("err").str("badop");
				}
			} catch (Event& e) {
				w.key("err").str(e.name);
				std::stringstream ss; ss << e.data;
				w.key("what").str(ss.str().substr(0, 300));
			}
			w.endObj();
		}
		w.endArr();
	} catch (Event& e) {
		std::stringstream ss; ss << e.data;
		w.key("exception").str(e.name + ": " + ss.str());
	}
	w.endObj();
	return w.s;
}
void registerValueCmds3() { cmdTable()["dm"] = cmdDM; }
