// transform command: xml, backend (c|pml|vhdl) -> {"text":..., "annotated":...}
#include "uscxml/config.h"
#include "uscxml/Interpreter.h"
#include "uscxml/transform/ChartToC.h"
#include "uscxml/transform/ChartToPromela.h"
#include "uscxml/transform/ChartToVHDL.h"
#include "uscxml/util/DOM.h"
#include <xercesc/dom/DOM.hpp>
#include <sstream>
#include "jw.h"
#include "worker_cmds.h"
#include "worker_util.h"

using namespace uscxml;

static std::string cmdTransform(const std::vector<std::string>& a) {
	JW w;
	w.beginObj();
	try {
		Interpreter interp = Interpreter::fromXML(a.at(1), a.size() > 3 ? a[3] : "");
		const std::string& be = a.at(2);
		Transformer t;
		if (be == "c") t = ChartToC::transform(interp);
		else if (be == "pml") t = ChartToPromela::transform(interp);
		else if (be == "vhdl") t = ChartToVHDL::transform(interp);
		else { w.key("error").str("backend").endObj(); return w.s; }
		std::stringstream ss;
		t.writeTo(ss);
		w.key("text").str(ss.str());
		std::stringstream as;
		as << *(t.getImpl()->getDocument());
		w.key("annotated").str(as.str());
	} catch (Event& e) {
		std::stringstream ss; ss << e.data;
		w.key("exception").str(e.name + ": " + ss.str());
	} catch (std::exception& e) {
		w.key("exception").str(std::string("std: ") + e.what());
	}
	w.endObj();
	return w.s;
}

void registerXformCmds() {
	cmdTable()["transform"] = cmdTransform;
}
