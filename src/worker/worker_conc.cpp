// concurrency / life-cycle commands: lifecycle, producers, timed (C08-C11)
#include "uscxml/config.h"
#include "uscxml/Interpreter.h"
#include "uscxml/interpreter/InterpreterImpl.h"
#include "uscxml/interpreter/InterpreterMonitor.h"
#include "uscxml/interpreter/LoggingImpl.h"
#include "uscxml/util/VerifHooks.h"
#include "uscxml/plugins/Factory.h"
#include <xercesc/dom/DOM.hpp>
#include <sstream>
#include <thread>
#include <chrono>
#include <atomic>
#include <mutex>
#include <condition_variable>
#include <cstring>
#include <unistd.h>
#include "jw.h"
#include "worker_cmds.h"
#include "worker_util.h"

using namespace uscxml;
using namespace XERCESC_NS;

// defined in worker_core.cpp
class RecMonitorFwd;
InterpreterMonitor* newRecMonitor(JW* w, bool copyToInvokers, bool timestamps);
void recMonitorSetMain(InterpreterMonitor* m, const std::string& session);
void setMonitorMainSession(InterpreterMonitor* m, const std::string& s);

static inline long long nowUs() {
	return std::chrono::duration_cast<std::chrono::microseconds>(std::chrono::steady_clock::now().time_since_epoch()).count();
}

// ---- schedule controller installed as uscxml_verif_hook ----------------------------------------------------
struct HookCtl {
	std::vector<int> sched;            // perturbation actions consumed cyclically: 0 none 1 yield 2 sleep 50us 3 sleep 400us
	std::atomic<size_t> pos{0};
	std::string parkPoint;             // point at which the calling thread is parked
	int parkMaxMs = 0;
	std::atomic<int> parked{0};        // number of threads currently parked
	std::atomic<int> parkCount{0};     // how often the point was reached
	std::atomic<bool> release{false};
	std::atomic<int> armed{0};         // park only while > 0 (decremented per park)
	std::atomic<long long> hits{0};
	std::atomic<int> bothQueuesBusy{0};
};
static HookCtl* g_ctl = NULL;

static void hookFn(const char* point, const void* obj) {
	HookCtl* c = g_ctl;
	if (!c) return;
	c->hits++;
	if (!c->parkPoint.empty() && c->parkPoint == point && c->armed.load() > 0) {
		c->armed--;
		c->parkCount++;
		c->parked++;
		long long end = nowUs() + (long long)c->parkMaxMs * 1000;
		while (!c->release.load() && nowUs() < end) {
			std::this_thread::sleep_for(std::chrono::microseconds(200));
		}
		c->parked--;
		return;
	}
	if (!c->sched.empty()) {
		int a = c->sched[c->pos++ % c->sched.size()];
		if (a == 1) std::this_thread::yield();
		else if (a == 2) std::this_thread::sleep_for(std::chrono::microseconds(50));
		else if (a == 3) std::this_thread::sleep_for(std::chrono::microseconds(400));
	}
}

static void installCtl(HookCtl* c) {
	g_ctl = c;
#ifdef USCXML_VERIF
	uscxml_verif_hook = c ? hookFn : NULL;
#endif
}

static std::vector<int> parseInts(const std::string& s) {
	std::vector<int> v;
	std::istringstream is(s);
	int x;
	while (is >> x) v.push_back(x);
	return v;
}

// ---- lifecycle: xml, engine, ops(one per line) ---------------------------------------------------------------
static std::string cmdLifecycle(const std::vector<std::string>& a) {
	const std::string& xml = a.at(1);
	std::string engine = a.at(2);
	std::vector<std::string> ops = splitLines(a.at(3));
	JW w;
	w.beginObj().key("trace").beginArr();
	Interpreter* interp = NULL;
	InterpreterMonitor* mon = NULL;
	std::thread* blocked = NULL;
	std::atomic<int> blockedResult(-100);
	std::atomic<bool> blockedDone(false);
	std::string exc;
	auto rec1 = [&](const char* k, const std::string& v) {
		std::lock_guard<std::recursive_mutex> lock(g_recMutex);
		w.beginArr().str(k).str(v).endArr();
	};
	auto create = [&]() {
		interp = new Interpreter(Interpreter::fromXML(xml, ""));
		setupInterpreter(*interp, engine, &w, false, "");
		mon = newRecMonitor(&w, false, false);
		interp->addMonitor(mon);
	};
	try {
		create();
		for (auto& op : ops) {
			std::istringstream is(op);
			std::string k, arg;
			is >> k >> arg;
			if (k == "new") {
				if (interp == NULL) create();
				continue;
			}
			if (interp == NULL) { rec1("op-on-destroyed", k); continue; }
			rec1("op", op);
			if (k == "step") {
				InterpreterState st = interp->step(0);
				rec1("st", istateName(st));
				if (st != USCXML_INITIALIZED && st != USCXML_INSTANTIATED) recordConfig(w, *interp);
			} else if (k == "drain") {
				// step(0) until the interpreter is idle or finished (bounded)
				for (int i = 0; i < 300; i++) {
					InterpreterState st = interp->step(0);
					rec1("st", istateName(st));
					if (st != USCXML_INITIALIZED && st != USCXML_INSTANTIATED) recordConfig(w, *interp);
					if (st == USCXML_IDLE || st == USCXML_FINISHED) break;
				}
			} else if (k == "stepb") {
				InterpreterState st = interp->step((size_t)atol(arg.c_str()));
				rec1("st", istateName(st));
				if (st != USCXML_INITIALIZED) recordConfig(w, *interp);
			} else if (k == "bstep") {
				// a step() that blocks for an external event, on its own thread
				if (blocked == NULL) {
					blockedDone = false;
					Interpreter* ip = interp;
					blocked = new std::thread([ip, &blockedResult, &blockedDone, &w]() {
						try {
							InterpreterState st = ip->step();   // forever
							blockedResult = (int)st;
						} catch (...) {
							blockedResult = -99;
						}
						blockedDone = true;
					});
				}
			} else if (k == "join") {
				if (blocked != NULL) {
					long long end = nowUs() + 5000000LL;
					while (!blockedDone.load() && nowUs() < end) std::this_thread::sleep_for(std::chrono::milliseconds(1));
					if (blockedDone.load()) {
						blocked->join();
						delete blocked;
						blocked = NULL;
						rec1("joined", blockedResult.load() == -99 ? "exception" : istateName(blockedResult.load()));
						if (blockedResult.load() != (int)USCXML_INITIALIZED && blockedResult.load() != -99) recordConfig(w, *interp);
					} else {
						rec1("join-timeout", "");
						// cannot continue safely: leak the thread and stop
						w.endArr();
						w.key("fatal").str("blocked step() did not return within 5s");
						w.endObj();
						_exit(42);
					}
				}
			} else if (k == "recv") {
				interp->receive(Event(arg, Event::EXTERNAL));
			} else if (k == "recvt") {
				Interpreter* ip = interp;
				std::thread t([ip, arg]() { ip->receive(Event(arg, Event::EXTERNAL)); });
				t.join();
			} else if (k == "cancel") {
				interp->cancel();
			} else if (k == "cancelt") {
				Interpreter* ip = interp;
				std::thread t([ip]() { ip->cancel(); });
				t.join();
			} else if (k == "reset") {
				interp->reset();
			} else if (k == "state") {
				rec1("state", istateName(interp->getState()));
			} else if (k == "isin") {
				rec1("isin", interp->isInState(arg) ? "1" : "0");
			} else if (k == "sleep") {
				std::this_thread::sleep_for(std::chrono::milliseconds(atol(arg.c_str())));
			} else if (k == "destroy") {
				long long t0 = nowUs();
				if (blocked != NULL) {
					// a blocked step must be unblocked by the caller (cancel) before destruction; record and join
					long long end = nowUs() + 5000000LL;
					while (!blockedDone.load() && nowUs() < end) std::this_thread::sleep_for(std::chrono::milliseconds(1));
					if (!blockedDone.load()) { rec1("destroy-with-blocked-step", ""); _exit(43); }
					blocked->join(); delete blocked; blocked = NULL;
				}
				interp->removeMonitor(mon);
				delete interp;
				interp = NULL;
				rec1("destroyed", std::to_string((nowUs() - t0) / 1000));
			}
		}
	} catch (Event& e) {
		std::stringstream ss; ss << e.data;
		exc = e.name + ": " + ss.str().substr(0, 300);
	}
	if (blocked != NULL) {
		if (interp) interp->cancel();
		long long end = nowUs() + 5000000LL;
		while (!blockedDone.load() && nowUs() < end) std::this_thread::sleep_for(std::chrono::milliseconds(1));
		if (blockedDone.load()) { blocked->join(); delete blocked; }
		else { _exit(44); }
	}
	if (interp) {
		long long t0 = nowUs();
		interp->removeMonitor(mon);
		delete interp;
		rec1("destroyed", std::to_string((nowUs() - t0) / 1000));
	}
	w.endArr();
	if (exc.size()) w.key("exception").str(exc);
	w.endObj();
	return w.s;
}

// ---- producers: xml, engine, nprod, nper, blockMs(-1 = forever), sched ints ----------------------------------------
static std::string cmdProducers(const std::vector<std::string>& a) {
	const std::string& xml = a.at(1);
	std::string engine = a.at(2);
	int nprod = atoi(a.at(3).c_str()), nper = atoi(a.at(4).c_str());
	long blockMs = atol(a.at(5).c_str());
	HookCtl ctl;
	ctl.sched = parseInts(a.at(6));
	bool mixedTypes = a.size() > 7 && a[7] == "mixed";
	JW w;
	w.beginObj().key("trace").beginArr();
	std::string exc;
	long long t0 = nowUs();
	bool timeout = false;
	bool drainCapped = false;
	try {
		Interpreter interp = Interpreter::fromXML(xml, "");
		setupInterpreter(interp, engine, &w, false, "");
		InterpreterMonitor* mon = newRecMonitor(&w, false, false);
		interp.addMonitor(mon);
		// run to the first idle so that the queues exist
		for (int i = 0; i < 200; i++) {
			InterpreterState st = interp.step(0);
			if (st == USCXML_IDLE || st == USCXML_FINISHED) break;
		}
		installCtl(&ctl);
		std::atomic<int> started(0);
		std::vector<std::thread> producers;
		for (int p = 0; p < nprod; p++) {
			producers.emplace_back([&interp, p, nper, &started, mixedTypes]() {
				started++;
				for (int s = 0; s < nper; s++) {
					// mixedTypes: the embedder hands over events of every public Event::Type (receive() must queue them all)
					Event::Type ty = Event::EXTERNAL;
					if (mixedTypes) ty = ((p + s) % 3 == 0 ? Event::EXTERNAL : ((p + s) % 3 == 1 ? Event::INTERNAL : Event::PLATFORM));
					interp.receive(Event("p." + std::to_string(p) + "." + std::to_string(s), ty));
				}
			});
		}
		// stepping thread = this thread
		long total = (long)nprod * nper;
		std::atomic<long>* seen = new std::atomic<long>(0);
		// count processed external events by scanning what the monitor wrote is expensive; use a small side monitor
		struct CountMon : public InterpreterMonitor {
			std::atomic<long>* n;
			virtual void beforeProcessingEvent(const std::string&, const Event& e) { if (e.name.size() > 1 && e.name[0] == 'p' && e.name[1] == '.') (*n)++; }
		} cm;
		cm.n = seen;
		interp.addMonitor(&cm);
		long long deadline = nowUs() + 20000000LL;
		long stepsLeft = total * 300 + 3000;   // a chart that never stabilises must not produce a 20 s trace
		while (seen->load() < total) {
			if (stepsLeft < 0) { timeout = true; break; }
			InterpreterState st = interp.step(blockMs < 0 ? (size_t)200 : (size_t)blockMs);   // 'forever' is emulated by a long wait so the watchdog can fire
			if (st != USCXML_IDLE) stepsLeft--;   // idle polls while the producers have not delivered yet do not count
			if (st == USCXML_FINISHED) break;
			if (nowUs() > deadline) { timeout = true; break; }
		}
		for (auto& t : producers) t.join();
		// drain: run until idle
		drainCapped = !timeout;
		for (int i = 0; i < 2000 && !timeout; i++) {
			InterpreterState st = interp.step(0);
			if (st == USCXML_IDLE || st == USCXML_FINISHED) { drainCapped = false; break; }
		}
		installCtl(NULL);
		interp.removeMonitor(&cm);
		interp.removeMonitor(mon);
		delete seen;
	} catch (Event& e) {
		installCtl(NULL);
		std::stringstream ss; ss << e.data;
		exc = e.name + ": " + ss.str().substr(0, 300);
	}
	w.endArr();
	w.key("timeout").boolean(timeout);
	w.key("drain_capped").boolean(drainCapped);
	w.key("hook_hits").num(ctl.hits.load());
	w.key("wall_ms").num((nowUs() - t0) / 1000);
	if (exc.size()) w.key("exception").str(exc);
	w.endObj();
	return w.s;
}

// ---- timed: xml, engine, script lines "<ms> recv <name>" / "<ms> cancel", opts (park=<point> parkms=N arm=K until=<ms>) -----
// runs step(0)/short blocking steps on this thread, feeds events at the given elapsed times, timestamps every record
static std::string cmdTimed(const std::vector<std::string>& a) {
	const std::string& xml = a.at(1);
	std::string engine = a.at(2);
	std::vector<std::string> script = splitLines(a.at(3));
	auto opts = parseOpts(a.size() > 4 ? a[4] : "");
	long untilMs = opts.count("until") ? atol(opts["until"].c_str()) : 500;
	HookCtl ctl;
	if (opts.count("park")) {
		ctl.parkPoint = opts["park"];
		ctl.parkMaxMs = opts.count("parkms") ? atoi(opts["parkms"].c_str()) : 300;
		ctl.armed = opts.count("arm") ? atoi(opts["arm"].c_str()) : 1;
	}
	std::string onPark = opts.count("onpark") ? opts["onpark"] : "";   // event to feed as soon as a thread is parked
	long onParkDelayMs = opts.count("onparkdelay") ? atol(opts["onparkdelay"].c_str()) : 0;   // ... or that long after it was parked
	long long parkedSince = 0;
	struct Item { long ms; std::string what, arg; bool done; };
	std::vector<Item> items;
	for (auto& l : script) {
		std::istringstream is(l);
		Item it; it.done = false;
		is >> it.ms >> it.what >> it.arg;
		items.push_back(it);
	}
	JW w;
	w.beginObj().key("trace").beginArr();
	std::string exc;
	long long t0 = nowUs();
	bool fedOnPark = false;
	try {
		Interpreter* interp = new Interpreter(Interpreter::fromXML(xml, ""));
		setupInterpreter(*interp, engine, &w, false, "");
		InterpreterMonitor* mon = newRecMonitor(&w, opts.count("copymon") > 0, true);
		recMonitorSetMain(mon, interp->getImpl()->getSessionId());
		interp->addMonitor(mon);
		if (opts.count("sched")) {
			std::string sc = opts["sched"];
			for (auto& c : sc) if (c == ',') c = ' ';
			ctl.sched = parseInts(sc);
		}
		installCtl(&ctl);
		bool finished = false;
		long long lastIter = nowUs();
		while (!finished) {
			// a stall of the whole process (load, I/O) must not eat the time the chart was given: extend the run by it
			long long gap = (nowUs() - lastIter) / 1000;
			if (gap > 20 && untilMs < 60000) untilMs += gap;
			lastIter = nowUs();
			long long el = (nowUs() - t0) / 1000;
			if (el > untilMs) break;
			if (opts.count("destroyparked") && ctl.parked.load() > 0) break;
			for (auto& it : items) {
				if (!it.done && el >= it.ms) {
					it.done = true;
					{
						std::lock_guard<std::recursive_mutex> lock(g_recMutex);
						w.beginArr().str("fed").str(it.what + " " + it.arg).num((nowUs() - t0)).endArr();
					}
					if (it.what == "recv") interp->receive(Event(it.arg, Event::EXTERNAL));
					else if (it.what == "cancel") interp->cancel();
				}
			}
			if (!onPark.empty() && !fedOnPark && ctl.parked.load() > 0 && parkedSince == 0) parkedSince = nowUs();
			if (!onPark.empty() && !fedOnPark && ctl.parked.load() > 0 && nowUs() - parkedSince >= onParkDelayMs * 1000) {
				fedOnPark = true;
				{
					std::lock_guard<std::recursive_mutex> lock(g_recMutex);
					w.beginArr().str("fed-on-park").str(onPark).num((nowUs() - t0)).endArr();
				}
				interp->receive(Event(onPark, Event::EXTERNAL));
			}
			InterpreterState st = interp->step(1);
			if (st == USCXML_FINISHED) finished = true;
			if (fedOnPark && st == USCXML_IDLE && !ctl.release.load()) {
				// the interpreter processed the event fed during the park: let the parked thread go
				ctl.release = true;
			}
		}
		// destroyparked: tear the interpreter down while a thread still sits at the park point (it leaves after parkms)
		if (!opts.count("destroyparked")) ctl.release = true;
		long long td = nowUs();
		interp->removeMonitor(mon);
		delete interp;
		ctl.release = true;
		installCtl(NULL);
		{
			std::lock_guard<std::recursive_mutex> lock(g_recMutex);
			w.beginArr().str("destroyed").num((nowUs() - td) / 1000).endArr();
		}
	} catch (Event& e) {
		ctl.release = true;
		installCtl(NULL);
		std::stringstream ss; ss << e.data;
		exc = e.name + ": " + ss.str().substr(0, 300);
	}
	w.endArr();
	w.key("park_count").num(ctl.parkCount.load());
	w.key("t0").num(0);
	if (exc.size()) w.key("exception").str(exc);
	w.endObj();
	return w.s;
}

// ---- churn: create / run briefly / destroy many interpreters (teardown races), with optional parking ----------------
static std::string cmdChurn(const std::vector<std::string>& a) {
	const std::string& xml = a.at(1);
	int n = atoi(a.at(2).c_str());
	int steps = atoi(a.at(3).c_str());
	auto opts = parseOpts(a.size() > 4 ? a[4] : "");
	HookCtl ctl;
	if (opts.count("park")) {
		ctl.parkPoint = opts["park"];
		ctl.parkMaxMs = opts.count("parkms") ? atoi(opts["parkms"].c_str()) : 20;
	}
	ctl.sched = parseInts(opts.count("sched") ? opts["sched"] : "");
	for (auto& c : ctl.sched) (void)c;
	JW w;
	w.beginObj();
	long long worst = 0;
	installCtl(&ctl);
	try {
		for (int i = 0; i < n; i++) {
			if (!ctl.parkPoint.empty()) { ctl.armed = 1; ctl.release = false; }
			Interpreter* interp = new Interpreter(Interpreter::fromXML(xml, ""));
			JW dummy;
			setupInterpreter(*interp, "large", &dummy, false, "");
			for (int s = 0; s < steps; s++) {
				InterpreterState st = interp->step(0);
				if (st == USCXML_FINISHED) break;
			}
			long long t0 = nowUs();
			delete interp;
			long long d = nowUs() - t0;
			if (d > worst) worst = d;
			ctl.release = true;
		}
	} catch (Event& e) {
		w.key("exception").str(e.name);
	}
	installCtl(NULL);
	w.key("n").num(n).key("worst_destroy_us").num(worst).key("park_count").num(ctl.parkCount.load());
	w.endObj();
	return w.s;
}

void registerConcCmds() {
	cmdTable()["lifecycle"] = cmdLifecycle;
	cmdTable()["producers"] = cmdProducers;
	cmdTable()["timed"] = cmdTimed;
	cmdTable()["churn"] = cmdChurn;
}
