// minimal JSON writer (independent of the code under test)
#pragma once
#include <string>
#include <vector>
#include <cstdio>

struct JW {
	std::string s;
	std::vector<char> stack; // 'o' / 'a'
	std::vector<bool> first;
	bool afterKey = false;

	void sep() {
		if (afterKey) { afterKey = false; return; }
		if (!first.empty()) {
			if (!first.back()) s += ",";
			first.back() = false;
		}
	}
	JW& beginObj() { sep(); s += "{"; first.push_back(true); return *this; }
	JW& endObj() { s += "}"; first.pop_back(); return *this; }
	JW& beginArr() { sep(); s += "["; first.push_back(true); return *this; }
	JW& endArr() { s += "]"; first.pop_back(); return *this; }
	JW& key(const std::string& k) { sep(); esc(k); s += ":"; afterKey = true; return *this; }
	JW& str(const std::string& v) { sep(); esc(v); return *this; }
	JW& num(long long v) { sep(); s += std::to_string(v); return *this; }
	JW& dbl(double v) { sep(); char b[64]; snprintf(b, sizeof b, "%.17g", v); s += b; return *this; }
	JW& boolean(bool v) { sep(); s += v ? "true" : "false"; return *this; }
	JW& null() { sep(); s += "null"; return *this; }
	JW& raw(const std::string& v) { sep(); s += v; return *this; }
	// bytes >= 0x80 are emitted as \u00XX (latin-1 view) so that arbitrary bytes survive; python side
	// re-encodes with latin-1 when it needs the raw bytes.
	void esc(const std::string& v) {
		s += "\"";
		for (unsigned char c : v) {
			switch (c) {
			case '"': s += "\\\""; break;
			case '\\': s += "\\\\"; break;
			case '\n': s += "\\n"; break;
			case '\r': s += "\\r"; break;
			case '\t': s += "\\t"; break;
			default:
				if (c < 0x20 || c >= 0x7f) { char b[8]; snprintf(b, sizeof b, "\\u%04x", c); s += b; }
				else s.push_back((char)c);
			}
		}
		s += "\"";
	}
};
