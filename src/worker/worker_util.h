#pragma once
#include <string>
#include <map>
#include <vector>
#include <mutex>
#include "jw.h"
#include "uscxml/messages/Data.h"
#include "uscxml/Interpreter.h"

extern std::recursive_mutex g_recMutex;
std::string eid(const XERCESC_NS::DOMElement* e);
void dumpData(JW& w, const uscxml::Data& d, int depth);
std::map<std::string, std::string> parseOpts(const std::string& s);
std::vector<std::string> splitLines(const std::string& s);
void recordConfig(JW& w, uscxml::Interpreter& interp);
const char* istateName(int s);
void setupInterpreter(uscxml::Interpreter& interp, const std::string& engine, JW* trace, bool allLog, const std::string& dm);
