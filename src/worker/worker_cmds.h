#pragma once
#include <string>
#include <vector>
#include <map>
#include <functional>

typedef std::function<std::string(const std::vector<std::string>&)> CmdFn;
std::map<std::string, CmdFn>& cmdTable();

void registerCoreCmds();   // run / validate / lifecycle
void registerValueCmds();  // namematch / json / lua / promela
void registerXformCmds();  // transform
void registerConcCmds();   // lifecycle / producers / timed / churn
